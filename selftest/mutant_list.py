"""Deliberate property-breaking edits used to validate the monitors (the 'breaks it must catch' lists of DESIGN.md)."""

MUTANTS = [
    # ---- C01
    dict(property="C01", name="header-threshold-ff", file="secsgem/secs/variables/base.py", old="if length > 0xFF:", new="if length >= 0xFF:"),
    dict(property="C01", name="length-bytes-swapped", file="secsgem/secs/variables/base.py",
         old="return bytes(bytearray((format_byte, (length & 0x00FF00) >> 8, (length & 0x0000FF))))",
         new="return bytes(bytearray((format_byte, (length & 0x0000FF), (length & 0x00FF00) >> 8)))"),
    dict(property="C01", name="u2-format-code", file="secsgem/secs/variables/u2.py", old="format_code = 0o52", new="format_code = 0o54"),
    dict(property="C01", name="little-endian", file="secsgem/secs/variables/base_number.py", old='result += struct.pack(f">{self._struct_code}", value)',
         new='result += struct.pack(f"<{self._struct_code}", value)'),
    dict(property="C01", name="boolean-true-ff", file="secsgem/secs/variables/boolean.py", old='result += b"\\1"', new='result += b"\\xff"'),
    dict(property="C01", name="text-decode-pos", file="secsgem/secs/variables/base_text.py", old="return text_pos + length", new="return text_pos"),
    dict(property="C01", name="i2-max-off-by-one", file="secsgem/secs/variables/i2.py", old="_max = 32767", new="_max = 32768"),
    dict(property="C01", name="jis8-shift", file="secsgem/common/codec_jis_x_0201.py", old="jis8_decoding_map[i] = i + 0xFEC0", new="jis8_decoding_map[i] = i + 0xFEC1"),
    dict(property="C01", name="binary-keeps-old", file="secsgem/secs/variables/binary.py", old='result = b""', new="result = None"),
    dict(property="C01", name="f4-decimal-bound", file="secsgem/secs/variables/f4.py", old="_max = 3.4028234663852886e38", new="_max = 3.40282e38"),
    # ---- C02
    dict(property="C02", name="ignore-third-length-byte", file="secsgem/secs/variables/base.py", old="for _ in range(length_bytes):", new="for _ in range(min(length_bytes, 2)):"),
    dict(property="C02", name="dynamic-drops-i8", file="secsgem/secs/variables/dynamic.py", old="            I8.format_code: I8,\n", new=""),
    dict(property="C02", name="f8-tight-bound", file="secsgem/secs/variables/f8.py", old="_max = 1.7976931348623157e308", new="_max = 1.79769e308"),
    dict(property="C02", name="boolean-nonzero-false", file="secsgem/secs/variables/boolean.py", old="if bytearray(data)[text_pos] == 0:", new="if bytearray(data)[text_pos] != 1:"),
    # ---- C14
    dict(property="C14", name="itemb-bytes-n", file="secsgem/secs/item_b.py", old="values.append(bytes([int(self._verify_value_in_bounds(data_item))]))",
         new="values.append(bytes(int(self._verify_value_in_bounds(data_item))))"),
    dict(property="C14", name="from-value-width", file="secsgem/secs/item_number.py", old="_maximum_value = 0xFFFF\n", new="_maximum_value = 0xFFFE\n"),
    dict(property="C14", name="item-header-threshold", file="secsgem/secs/item.py", old="if length > 0xFFFF:", new="if length > 0xFFFFF:"),
    dict(property="C14", name="from-value-bool-after-int", file="secsgem/secs/item.py", old="        elif isinstance(value, bool):\n            result = cls._subclasses_by_sml[\"BOOLEAN\"](value)\n", new=""),
    # ---- C15
    dict(property="C15", name="sml-quote-in-literal", file="secsgem/secs/item_str.py", old="if char in self.printable_chars and char != '\"':", new="if char in self.printable_chars:"),
    dict(property="C15", name="sml-strip-widened", file="secsgem/secs/item_str.py", old="data += item.value.strip('\"').encode(cls._encoding)", new="data += item.value.strip('\" ').encode(cls._encoding)"),
    dict(property="C15", name="sml-codepoint", file="secsgem/secs/item_str.py", old="return char.encode(cls._encoding)[0]", new="return ord(char)"),
    dict(property="C15", name="sml-end-sentinel", file="secsgem/secs/sml.py", old="        self._token_counter += 1\n        return self._tokens[self._token_counter]",
         new="        self._token_counter += 1\n        if self._token_counter >= len(self._tokens):\n            return SMLToken(\">\", 0, 0, self)\n        return self._tokens[self._token_counter]",
         extra=[("        return self._tokens[self._token_counter + ahead]", "        if self._token_counter + ahead >= len(self._tokens):\n            return SMLToken(\">\", 0, 0, self)\n        return self._tokens[self._token_counter + ahead]")]),
    dict(property="C15", name="sml-unknown-type-as-list", file="secsgem/secs/item.py", old="        if data_type.value.upper() not in cls._subclasses_by_sml:\n            raise data_type.exception(f\"unknown data type '{data_type.value}'\")\n\n        return cls._subclasses_by_sml[data_type.value.upper()].from_sml(parser)",
         new="        return cls._subclasses_by_sml.get(data_type.value.upper(), cls._subclasses_by_sml[\"L\"]).from_sml(parser)"),
    # ---- C04
    dict(property="C04", name="frame-length-no-plus4", file="secsgem/hsms/protocol.py", old='length = struct.unpack(">L", length_data)[0] + 4', new='length = struct.unpack(">L", length_data)[0]'),
    dict(property="C04", name="wbit-mask", file="secsgem/hsms/header.py", old="res[1] & 0b01111111,", new="res[1] & 0b00111111,"),
    dict(property="C04", name="system-signed", file="secsgem/hsms/header.py", old='            ">HBBBBL",\n            self.device_id,', new='            ">HBBBBl",\n            self.device_id,'),
    dict(property="C04", name="bytequeue-pop-off-by-one", file="secsgem/common/byte_queue.py", old="            del self._buffer[:size]\n", new="            del self._buffer[: size + (1 if size > 1000 else 0)]\n"),
    dict(property="C04", name="bytequeue-waits-for-one-more", file="secsgem/common/byte_queue.py", old="            return len(self._buffer) >= size\n\n        if len(self._buffer) < size:",
         new="            return len(self._buffer) > size\n\n        if len(self._buffer) <= size:"),
]
