#!/venv/bin/python
"""Validate the monitors: apply small property-breaking edits to a scratch worktree of /repo and expect VIOLATION.

usage: selftest/mutants.py [ID ...]      (IDs like C01 or mutant names; default: all)
The scratch worktree lives under $TMPDIR and is removed afterwards; evidence/replays go to a temp dir.
"""
import json
import os
import shutil
import subprocess
import sys
import tempfile
import time

VERIF = os.path.dirname(os.path.dirname(os.path.abspath(__file__)))
sys.path.insert(0, VERIF)
from selftest.mutant_list import MUTANTS  # noqa: E402


def sh(*cmd, **kw):
    return subprocess.run(cmd, capture_output=True, text=True, **kw)


def main():
    want = [a.upper() for a in sys.argv[1:]]
    tmp = tempfile.mkdtemp(prefix="verif-mut-")
    wt = os.path.join(tmp, "repo")
    out = os.path.join(tmp, "out")
    r = sh("git", "-C", "/repo", "worktree", "add", "--detach", "-q", wt, "HEAD")
    if r.returncode:
        print(r.stderr)
        return 2
    results = []
    try:
        for m in MUTANTS:
            if want and m["property"] not in want and m["name"].upper() not in want:
                continue
            path = os.path.join(wt, m["file"])
            src = open(path).read()
            if src.count(m["old"]) < 1:
                print(f"SKIP {m['name']}: pattern not found in {m['file']}")
                results.append((m, "pattern-missing", 0))
                continue
            new_src = src.replace(m["old"], m["new"], m.get("count", 1))
            for old2, new2 in m.get("extra", []):
                assert old2 in new_src, (m["name"], old2)
                new_src = new_src.replace(old2, new2, 1)
            open(path, "w").write(new_src)
            env = dict(os.environ, VERIF_REPO=wt, VERIF_OUT=out, VERIF_SEED=os.environ.get("VERIF_SEED", "0"))
            t0 = time.time()
            r = sh(os.path.join(VERIF, "check"), m["property"], m.get("tier", "quick"), env=env, cwd=VERIF)
            dt = time.time() - t0
            verdict = {0: "MISSED", 1: "caught", 2: "inconclusive"}.get(r.returncode, f"rc={r.returncode}")
            mech = [l.strip()[:160] for l in r.stdout.splitlines() if "violation mechanism=" in l][:2]
            print(f"{verdict:12s} {m['property']} {m['name']:40s} {dt:5.1f}s {mech[0] if mech else ''}")
            results.append((m, verdict, dt))
            open(path, "w").write(src)
    finally:
        sh("git", "-C", "/repo", "worktree", "remove", "--force", wt)
        shutil.rmtree(tmp, ignore_errors=True)
    missed = [m["name"] for m, v, _ in results if v != "caught"]
    print(f"{len(results) - len(missed)}/{len(results)} caught; not caught: {missed}")
    return 1 if missed else 0


if __name__ == "__main__":
    sys.exit(main())
