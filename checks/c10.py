"""C10 - the TCP transport delivers every accepted byte exactly once and in order.

The real TcpClientConnection / TcpServerConnection (created through HsmsSettings.create_connection, and also
driven through HsmsProtocol.send_message) send position-keyed pseudo-random payloads over loopback sockets to
a raw peer that drains the socket with various pacings and receive-buffer sizes. Conservation oracle: if the
send call returned True the peer must have received exactly the bytes sent, in order; if False, a prefix.
"""

from __future__ import annotations

import hashlib
import socket
import threading
import time

from lib import stuck, vtime, wire

PROPERTY = "C10"
LEVEL = "exploration"
RULE = ("sizes {1, 2, 1000, 64 KiB, 1 MiB-1, 1 MiB, 1 MiB+1, 4 MiB, 8 MiB} (+ random sizes, 32 MiB in thorough) x "
        "{client, server connection} x {send_data directly, HsmsProtocol.send_message (1 MiB packets)} x receiver pacing "
        "{immediate, delayed start, small reads with sleeps, a 7 s stall after the first MiB, a first read 8 s after a send that fits the socket buffer (longer than T8), small reads while the sender "
        "disables as soon as its send succeeded, abortive close midway} x peer receive buffer {default, 4 KiB}; 1-3 sends per "
        "connection; distinct by (mode, path, sizes, pacing, rcvbuf); non-trivial when the total exceeds 256 KiB "
        "(more than loopback socket buffering); plus: thousands of 3000-byte sends (and mixed 1..4097-byte sends) towards a peer that reads in bursts or lets the sender run into full buffers and then makes room for 100 kB at a time; a peer that leaves in the middle of a transfer while another one connects at once (nothing of the send may reach the second); half of the send_message transfers while the peer keeps sending Linktest.req and another thread of the application sends Linktest.req through send_message (control messages share the socket with the data)")
ASSUMPTIONS = ["loopback only; buffer sizes are the kernel's", "payload bytes are a position-keyed pseudo-random stream so loss, "
               "duplication and reordering are all visible", "a send that reports failure only needs to have delivered a prefix"]
LEVEL_TEXT = ("Runtime conservation monitoring (bytes accepted = bytes received, in order) of the real socket path under "
              "receiver pacing that forces partial writes; sizes and pacings form a fixed matrix plus random sizes.")
LEVEL_NOTE = "Kernel buffer state is not controlled; partial writes are provoked by slow readers and small receive buffers."
TECHNIQUE = "runtime conservation oracle on a raw peer socket under paced draining (partial-write provocation)"
SHARDS = {"quick": 16, "thorough": 16}
TIMEOUT = {"quick": 400, "thorough": 3400}
FLOORS = {"transfers.checked": 60, "transfers.larger_than_socket_buffers_with_slow_reader": 8, "path.send_data": 20,
          "path.send_message": 20, "mode.client": 20, "mode.server": 20, "transfers.peer_closed_midway": 4, "transfers.with_linktest_traffic": 8}


def payload(n, salt):
    """Position-keyed pseudo-random bytes."""
    out = bytearray()
    i = 0
    while len(out) < n:
        out += hashlib.blake2b(f"{salt}:{i}".encode(), digest_size=64).digest()
        i += 1
    return bytes(out[:n])


def _free_port(ctx):
    from lib import ports
    return ports.free_port(ctx.shard, ctx.nshards)


class Drain(threading.Thread):
    def __init__(self, sock, pacing, rng):
        super().__init__(daemon=True, name="harness-drain")
        self.sock = sock
        self.pacing = pacing
        self.rng = rng
        self.data = bytearray()
        self.stop = False
        self.eof = False
        self.close_after = 1 << 18
        self.stalled = False
        self.last_rx = time.monotonic()

    def run(self):
        stuck.register_harness_thread()
        if self.pacing == "delayed":
            time.sleep(self.rng.choice([0.2, 0.5]))
        if self.pacing == "delayed_longer_than_T8":
            # the send fits into the sender's socket buffer and has been reported long before the peer (small receive buffer: the
            # window is closed at once) takes its first byte, later than every protocol time-out (T8 = 5 s by default)
            time.sleep(8.0)
            self.last_rx = time.monotonic()
        if self.pacing == "stop_and_go":
            # the peer lets the sender run into full buffers, then makes a little room, again and again: after every pause the
            # sender's next small send meets a send buffer that has room for a part of it only
            self.sock.settimeout(0.05)
            for _ in range(12):
                time.sleep(0.25)
                got = 0
                while got < 100_000 and not self.stop:
                    try:
                        chunk = self.sock.recv(min(65536, 100_000 - got))
                    except socket.timeout:
                        break
                    except OSError:
                        return
                    if not chunk:
                        self.eof = True
                        return
                    self.data += chunk
                    got += len(chunk)
                    self.last_rx = time.monotonic()
        self.sock.settimeout(0.05)
        while not self.stop:
            try:
                n = 65536 if self.pacing not in ("small", "small_then_sender_disables") else self.rng.choice([1024, 2048, 4096])
                chunk = self.sock.recv(n)
                if not chunk:
                    self.eof = True
                    return
                self.data += chunk
                self.last_rx = time.monotonic()
                if self.pacing == "close_then_new_peer" and len(self.data) >= self.close_after:
                    self.sock.close()        # orderly close in the middle of the transfer; another peer connects right away
                    self.eof = True
                    return
                if self.pacing == "close_midway" and len(self.data) >= self.close_after:
                    # abortive close: unread data in the receive buffer makes the kernel send RST
                    self.sock.setsockopt(socket.SOL_SOCKET, socket.SO_LINGER, __import__("struct").pack("ii", 1, 0))
                    self.sock.close()
                    self.eof = True
                    return
                if self.pacing == "small" and self.rng.random() < 0.05:
                    time.sleep(0.002)
                if self.pacing == "stall" and self.rng.random() < 0.05:
                    time.sleep(0.002)
                if self.pacing == "bursty" and self.rng.random() < 0.3:
                    time.sleep(0.004)       # the peer reads in bursts: the sender's buffer is nearly full most of the time
                if self.pacing == "small_then_sender_disables":
                    time.sleep(0.0005)      # slow enough that most of the data is still on its way when the sender disables
                if self.pacing == "stall" and not self.stalled and len(self.data) >= (1 << 20):
                    # the peer accepts nothing for longer than any of the protocol time-outs (T8 = 5 s), then goes on
                    self.stalled = True
                    time.sleep(7.0)
                    self.last_rx = time.monotonic()
            except socket.timeout:
                continue
            except OSError:
                return


def _case(ctx, idx, active, path, sizes, pacing, rcvbuf):
    import secsgem.hsms as H

    rng = ctx.rng
    port = _free_port(ctx)
    mode = H.HsmsConnectMode.ACTIVE if active else H.HsmsConnectMode.PASSIVE
    settings = H.HsmsSettings(connect_mode=mode, address="127.0.0.1", port=port, t5=1, t6=5, t3=10)
    total = sum(sizes)
    wit = {"mode": "client" if active else "server", "path": path, "sizes": sizes, "pacing": pacing, "peer_rcvbuf": rcvbuf}
    ctx.case(("xfer", active, path, tuple(sizes), pacing, rcvbuf), nontrivial=total > 256 * 1024)
    listener = None
    peer = None
    proto = None
    conn = None
    connected = threading.Event()
    try:
        if active:
            listener = socket.socket()
            listener.setsockopt(socket.SOL_SOCKET, socket.SO_REUSEADDR, 1)
            if rcvbuf:
                listener.setsockopt(socket.SOL_SOCKET, socket.SO_RCVBUF, rcvbuf)
            listener.bind(("127.0.0.1", port))
            listener.listen(2)
            listener.settimeout(5)
        if path == "send_data":
            conn = settings.create_connection()
            conn.select_timeout = 0.05 if pacing != "close_then_new_peer" else conn.select_timeout
            conn.on_connected.register(lambda d: connected.set())
            conn.enable()
        else:
            proto = settings.create_protocol()
            proto.events.connected += lambda d: connected.set()
            proto._connection.select_timeout = 0.05  # noqa: SLF001
            proto.enable()
        if active:
            peer, _ = listener.accept()
        else:
            peer = socket.socket()
            if rcvbuf:
                peer.setsockopt(socket.SOL_SOCKET, socket.SO_RCVBUF, rcvbuf)
            end = time.monotonic() + 5
            while True:
                try:
                    peer.connect(("127.0.0.1", port))
                    break
                except OSError:
                    if time.monotonic() > end:
                        ctx.unsure(f"could not connect to the endpoint: {wit}")
                        return
                    time.sleep(0.02)
        if not connected.wait(5):
            ctx.unsure(f"endpoint did not report the connection: {wit}")
            return
        drain = Drain(peer, pacing, rng)
        expected = bytearray()
        results = []
        blobs = []
        for k, n in enumerate(sizes):
            blob = payload(n, f"{idx}/{k}")
            blobs.append(blob)
        box = {}

        @stuck.harness_thread
        def sender():
            try:
                for k, blob in enumerate(blobs):
                    if path == "send_data":
                        results.append(conn.send_data(blob))
                    else:
                        msg = H.HsmsMessage(H.HsmsStreamFunctionHeader(0x1000 + k, 1, 1, False, 0), blob)
                        results.append(proto.send_message(msg))
            except Exception as exc:
                box["exc"] = repr(exc)
        drain.start()
        th = threading.Thread(target=sender, daemon=True, name="harness-sender")
        th.start()
        if path == "send_message" and idx % 2 == 0 and pacing not in ("close_then_new_peer", "close_midway"):
            # meanwhile the peer keeps asking for link tests: the endpoint's answers (control messages, written by another
            # thread than the data) share the socket with the transfer and must not land inside it
            wit["peer_sends_linktest_requests_during_the_transfer"] = True
            ctx.count("transfers.with_linktest_traffic")

            @stuck.harness_thread
            def linktests():
                k = 0
                while th.is_alive() and not drain.eof and k < 4000:
                    k += 1
                    try:
                        peer.sendall(wire.hsms_control(wire.LINKTEST_REQ, 0x7000000 + k))
                    except OSError:
                        return
                    try:
                        # ... and the application (or the linktest timer) sends link tests of its own from another thread
                        proto.send_message(H.HsmsMessage(H.HsmsLinktestReqHeader(0x6000000 + k), b""))
                        ctx.count("transfers.control_messages_sent_by_another_thread")
                    except Exception as exc:  # noqa: BLE001
                        box.setdefault("linktest_exc", repr(exc))
                    time.sleep(0.002 + 0.004 * (k % 3))
            threading.Thread(target=linktests, daemon=True, name="harness-linktests").start()
        second = bytearray()
        if pacing == "close_then_new_peer":
            # the first peer leaves in the middle of the transfer and another one connects at once: it must not get the rest
            end = time.monotonic() + 20
            while time.monotonic() < end and not drain.eof:
                time.sleep(0.001)
            peer2 = None
            end = time.monotonic() + 5
            while time.monotonic() < end and peer2 is None and not active:
                try:
                    peer2 = socket.create_connection(("127.0.0.1", port), timeout=1.0)
                except OSError:
                    time.sleep(0.005)
            if active and listener is not None:
                listener.settimeout(4.0)
                try:
                    peer2, _ = listener.accept()
                except OSError:
                    peer2 = None
            if peer2 is not None:
                ctx.count("transfers.new_peer_right_after_the_first_left")
                peer2.settimeout(0.2)
                end = time.monotonic() + 3.0
                while time.monotonic() < end:
                    try:
                        chunk = peer2.recv(65536)
                        if not chunk:
                            break
                        second += chunk
                    except socket.timeout:
                        if not th.is_alive() and time.monotonic() > end - 1.5:
                            break
                    except OSError:
                        break
                try:
                    peer2.close()
                except OSError:
                    pass
        th.join(120)
        if th.is_alive():
            ctx.unsure(f"send did not return within 120 s: {wit}")
            drain.stop = True
            return
        if pacing == "small_then_sender_disables" and all(results) and "exc" not in box:
            # the sender closes the connection as soon as its send was reported successful: an orderly close delivers what
            # was accepted (the peer is still reading)
            ctx.count("transfers.sender_disabled_right_after_success")
            done = threading.Event()

            @stuck.harness_thread
            def dis():
                try:
                    (conn if conn is not None else proto).disable()
                finally:
                    done.set()
            threading.Thread(target=dis, daemon=True).start()
            done.wait(10)
        if "exc" in box:
            ctx.violation("send-raises", {**wit, "error": box["exc"]})
            drain.stop = True
            return
        # wire image of what was accepted
        for k, blob in enumerate(blobs):
            if path == "send_data":
                expected += blob
            else:
                expected += wire.hsms_data(1, 1, False, 0x1000 + k, blob, session=0)
        # wait until the stream is quiet (all accepted bytes had time to arrive)
        end = time.monotonic() + 60
        while time.monotonic() < end:
            if len(drain.data) >= len(expected):
                break
            if drain.eof:
                break
            if time.monotonic() - drain.last_rx > 5.0 and pacing not in ("delayed", "delayed_longer_than_T8", "stall", "stop_and_go"):
                break
            if time.monotonic() - drain.last_rx > 12.0:
                break
            time.sleep(0.01)
        time.sleep(0.05)
        drain.stop = True
        got = bytes(drain.data)
        if path == "send_message":
            # the protocol's own control frames (Select.req of an active endpoint, Linktest) are not part of the payload
            frames, rest = wire.parse_hsms_stream(got)
            ctx.count("transfers.linktest_responses_seen_by_the_peer", sum(1 for f in frames if f.stype == wire.LINKTEST_RSP))
            got = b"".join(wire.hsms_frame(f.session, f.byte2, f.byte3, f.ptype, f.stype, f.system, f.body) for f in frames
                           if f.stype == wire.DATA) + rest
        ctx.count("transfers.checked")
        ctx.count(f"path.{path}")
        ctx.count("mode.client" if active else "mode.server")
        if total > 256 * 1024 and (pacing != "immediate" or rcvbuf):
            ctx.count("transfers.larger_than_socket_buffers_with_slow_reader")
        ok_all = all(results) and len(results) == len(blobs)
        if pacing == "close_then_new_peer":
            ctx.count("transfers.peer_closed_midway")
            leaked = bytes(second)
            if path == "send_message":
                frames2, rest2 = wire.parse_hsms_stream(leaked)
                # control frames of the new connection (Select.req of an active endpoint) are not payload; bytes that do not even
                # form a frame are
                leaked = b"".join(wire.hsms_frame(f.session, f.byte2, f.byte3, f.ptype, f.stype, f.system, f.body) for f in frames2 if f.stype == wire.DATA) + rest2
            w3 = {**wit, "results": results, "bytes_expected": len(expected), "bytes_received_by_first_peer": len(got), "bytes_received_by_second_peer": len(leaked)}
            if leaked:
                ctx.violation("bytes-of-a-send-arrive-on-a-later-connection", w3)
            elif ok_all and bytes(expected[:len(got)]) == got and len(got) < len(expected):
                ctx.violation("send-reported-success-but-bytes-lost", w3)
            elif bytes(expected[:len(got)]) != got:
                ctx.violation("failed-send-delivered-non-prefix", w3)
            if not ok_all:
                ctx.count("transfers.reported_failure")
            return
        if pacing == "close_midway":
            ctx.count("transfers.peer_closed_midway")
        w2 = {**wit, "results": results, "bytes_expected": len(expected), "bytes_received": len(got)}
        if pacing == "close_midway":
            # the peer aborted the connection: bytes already accepted by the kernel may be lost without the sender being able
            # to know. Demanded: no exception (checked above), a prefix was delivered, and success is not reported when most
            # of the data cannot even have left the process (far more missing than socket buffers can hold).
            if bytes(expected[:len(got)]) != got:
                ctx.violation("peer-abort:delivered-bytes-are-not-a-prefix", w2)
            elif ok_all and len(expected) - len(got) > 40 * (1 << 20):
                ctx.violation("peer-abort:success-reported-although-most-bytes-were-never-sent", w2)
            if not ok_all:
                ctx.count("transfers.reported_failure")
        elif ok_all:
            if got != bytes(expected):
                first = next((i for i, (a, b) in enumerate(zip(got, expected)) if a != b), min(len(got), len(expected)))
                kind = "lost" if len(got) < len(expected) else "duplicated-or-extra" if len(got) > len(expected) else "corrupted"
                ctx.violation(f"send-reported-success-but-bytes-{kind}", {**w2, "first_difference_at": first})
        else:
            if bytes(expected[:len(got)]) != got:
                ctx.violation("failed-send-delivered-non-prefix", w2)
            ctx.count("transfers.reported_failure")
        if idx < 2:
            ctx.sample(w2)
    finally:
        for obj in (proto, conn):
            if obj is not None:
                done = threading.Event()

                @stuck.harness_thread
                def dis(obj=obj):
                    try:
                        obj.disable()
                    finally:
                        done.set()
                threading.Thread(target=dis, daemon=True).start()
                done.wait(5)
        for s in (peer, listener):
            if s is not None:
                try:
                    s.close()
                except OSError:
                    pass


def run(ctx):
    vtime.install()
    rng = ctx.rng
    MiB = 1 << 20
    fixed = [1, 2, 1000, 65536, MiB - 1, MiB, MiB + 1, 4 * MiB, 8 * MiB]
    cases = []
    for active in (True, False):
        for path in ("send_data", "send_message"):
            for n in fixed:
                for pacing, rcvbuf in (("immediate", 0), ("delayed", 0), ("small", 4096)):
                    if n >= 4 * MiB and pacing == "small" and ctx.quick and path == "send_message":
                        continue
                    cases.append((active, path, [n], pacing, rcvbuf))
            cases.append((active, path, [3, 300000, 70000], "small", 0))
            cases.append((active, path, [6 * MiB], "close_midway", 0))
            cases.append((active, path, [2 * MiB, 2 * MiB], "close_midway", 4096))
            cases.append((active, path, [8 * MiB], "close_then_new_peer", 0))
            if path == "send_data":
                cases.append((active, path, [48 * MiB], "close_midway", 0))
            if path == "send_message":
                for body in (MiB - 15, MiB - 14, MiB - 13, 2 * MiB - 14, 2 * MiB - 13):   # frame length at the 1 MiB packet boundary
                    cases.append((active, path, [body], "immediate", 0))
            cases.append((active, path, [MiB + 5, 17, 2 * MiB], "delayed", 4096))
            cases.append((active, path, [256 * 1024], "small_then_sender_disables", 4096))
            cases.append((active, path, [192 * 1024], "delayed_longer_than_T8", 4096))
            cases.append((active, path, [3, 600000], "small_then_sender_disables", 0))
            if path == "send_data":
                # thousands of small sends towards a peer that reads in bursts (each send meets a nearly full send buffer)
                cases.append((active, path, [3000] * (1200 if ctx.quick else 4000), "bursty", 0))
                cases.append((active, path, [3000] * 2500, "stop_and_go", 65536))
                cases.append((active, path, [rng.choice([1, 100, 1460, 4096, 4097]) for _ in range(2000)], "bursty", 16384))
                cases.append((active, path, [12 * MiB], "stall", 65536))     # far more than the socket buffers can take during the stall
    extra = 0 if ctx.quick else 200
    for _ in range(extra):
        cases.append((rng.random() < 0.5, rng.choice(["send_data", "send_message"]),
                      [rng.randint(1, 3 * MiB) for _ in range(rng.randint(1, 3))],
                      rng.choice(["immediate", "delayed", "small"]), rng.choice([0, 0, 4096, 16384])))
    if not ctx.quick:
        cases.append((True, "send_data", [32 * MiB], "small", 0))
        cases.append((False, "send_message", [32 * MiB], "delayed", 4096))
    for i, c in enumerate(cases):
        if ctx.mine(i):
            _case(ctx, i, *c)
    ctx.exhaustive["fixed_size_x_pacing_matrix"] = True
