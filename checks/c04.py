"""C04 - HSMS frames are bit-exact and reassembled independently of TCP segmentation.

Part A: HsmsMessage/HsmsBlock encode/decode vs the independent E37 frame codec for random header fields.
Part B: a real HsmsProtocol in SELECTED state over the in-memory connection receives one logical byte stream
under many partitions into segments; the sequence of message_received events and control responses must be
the same for every partition and equal to what was sent.
"""

from __future__ import annotations

import itertools
import time

from lib import gen, wire

PROPERTY = "C04"
LEVEL = "exploration"
RULE = ("(A) after SECS-I blocks were coded in the same process: random E37 header fields (session, stream, function, W, SType, system bytes with boundaries, body lengths) "
        "encoded/decoded by the library vs the reference frame codec; (B) streams of 1-12 frames (data with/without W, "
        "Linktest.req, bodies 0..1 MiB+1) delivered under partitions: whole, every byte, every single cut, all 2-cut "
        "partitions of a 3-frame stream, header-straddling and random cuts; distinct by (stream bytes, partition); "
        "non-trivial when the partition cuts inside a frame or puts several frames in one segment; (C) streams of 1-6 data "
        "frames whose lengths straddle the TCP receiver's read size (1023/1024/1025, multiples of 1024, 64 KiB) written to a "
        "real loopback socket in one write / per frame / in 1024-byte chunks / at random cuts, with and without pauses; (D) single frames arriving in two segments microseconds apart with nothing after them, under seeded yield injection on the protocol files (hand-over between receiving and framing thread); frames that repeat the header of the frame before them (system bytes included); frames cut in two after quiet periods longer than a short T8; whole frames back to back behind such a frame; (F) streams on a connection that follows one which ended inside a frame (in the length field, the header, the body; up to 70 kB announced)")
ASSUMPTIONS = ["lib/wire.py implements the E37 frame layout", "the in-memory connection delivers segments exactly as "
               "TcpConnection's receiver thread would (one on_data call per segment, same thread)",
               "data frames use catalogued header-only functions so that body content is irrelevant to decoding"]
LEVEL_TEXT = ("Runtime monitoring of the real receive path with controlled segmentation; the message_received history "
              "is checked against the sent sequence and across partitions (differential). All single-cut partitions of "
              "every stream and all 2-cut partitions of a fixed 3-frame stream are enumerated; other partitions sampled.")
LEVEL_NOTE = "Parts A and B use the in-memory connection; part C puts the kernel's TCP stack and the library's receiver thread in the loop."
TECHNIQUE = "runtime history monitor over controlled segmentations + reference frame codec"
SHARDS = {"quick": 8, "thorough": 16}
TIMEOUT = {"quick": 300, "thorough": 3000}
FLOORS = {"oracle.frame_codec": 2000, "oracle.partition": 300, "cut.in_length": 20, "cut.in_header": 20, "cut.in_body": 20,
          "partition.coalesced": 20, "enumerated.two_cut": 1000, "oracle.socket_stream": 100,
          "socket.frame_length_multiple_of_receiver_read_size": 30,
          "oracle.frames_after_a_pause_longer_than_T8": 16, "stream.frames_repeating_the_previous_header": 200,
          "oracle.new_connection_after_unfinished_frame": 50, "oracle.back_to_back_frames": 1000,
          "oracle.data_directly_followed_by_the_end_of_the_session": 100}

HEADER_ONLY = None


def _header_only():
    global HEADER_ONLY
    if HEADER_ONLY is None:
        from secsgem.secs.functions._all import secs_streams_functions

        HEADER_ONLY = sorted((f.stream, f.function) for f in secs_streams_functions if f._data_format is None)
    return HEADER_ONLY


def _part_a(ctx, n):
    import secsgem.hsms as H

    rng = ctx.rng
    # a process that also speaks SECS-I: its blocks share base classes (and whatever those cache) with the HSMS codec
    try:
        import secsgem.secsi.header as SH
        import secsgem.secsi.message as SM

        for blen in (0, 1, 2, 3, 12, 100, 243, 244):
            blk = SM.SecsIMessage(SH.SecsIHeader(rng.getrandbits(32), 0, 1, 1, 0, False, True), rng.randbytes(blen)).blocks[0]
            SM.SecsIBlock.decode(blk.encode())
            ctx.count("secsi_blocks_coded_before_hsms")
    except Exception as exc:  # not this property's business, but worth knowing
        ctx.count("secsi_block_codec_raised")
    stypes = [0, 1, 2, 3, 4, 5, 6, 7, 9]
    sys_b = [0, 1, 0x7FFFFFFF, 0x80000000, 0xFFFFFFFF, 0xFFFFFFFE, 0x100, 0xFFFF, 0x10000]
    for i in range(n):
        session = rng.choice([0, 1, 0x7FFF, 0x8000, 0xFFFF, rng.randint(0, 0xFFFF)])
        stream = rng.choice([0, 1, 63, 64, 127, rng.randint(0, 127)])
        function = rng.choice([0, 1, 127, 128, 255, rng.randint(0, 255)])
        wbit = rng.random() < 0.5
        stype = rng.choice(stypes)
        ptype = 0
        system = rng.choice(sys_b) if rng.random() < 0.5 else rng.getrandbits(32)
        blen = rng.choice([0, 1, 2, 3, 12, 100, 243, 244, 255, 256, 65535, 65536, rng.randint(0, 300)]) if i % 20 else rng.choice([70000, 1 << 20])
        body = rng.randbytes(blen)
        ref = wire.hsms_frame(session, (0x80 if wbit else 0) | stream, function, ptype, stype, system, body)
        ctx.case(("A", ref[:14], blen, hash(body)))
        ctx.count("oracle.frame_codec")
        wit = {"session": session, "stream": stream, "function": function, "wbit": wbit, "stype": stype, "system": system, "body_len": blen}
        try:
            hdr = H.HsmsHeader(system, session, stream, function, wbit, ptype, H.HsmsSType(stype))
            enc = H.HsmsMessage(hdr, body).blocks[0].encode()
            if enc != ref:
                ctx.violation("frame-encode-mismatch", {**wit, "encoded": enc[:30], "reference": ref[:30]})
            blk = H.HsmsBlock.decode(ref)
            h = blk.header
            got = (h.device_id, h.stream, h.function, bool(h.require_response), h.p_type, h.s_type.value, h.system, bytes(blk.data))
            want = (session, stream, function, wbit, ptype, stype, system, body)
            if got != want:
                ctx.violation("frame-decode-mismatch", {**wit, "got": got[:7], "want": want[:7]})
            if h.encode() != ref[4:14]:
                ctx.violation("header-reencode-mismatch", {**wit})
        except Exception as exc:
            ctx.violation(f"frame-codec-raises:{type(exc).__name__}", {**wit, "error": repr(exc)[:200]})
    # typed header classes build the documented control frames
    for cls, st in ((H.HsmsSelectReqHeader, 1), (H.HsmsSelectRspHeader, 2), (H.HsmsDeselectReqHeader, 3), (H.HsmsDeselectRspHeader, 4),
                    (H.HsmsLinktestReqHeader, 5), (H.HsmsLinktestRspHeader, 6), (H.HsmsSeparateReqHeader, 9)):
        system = rng.getrandbits(32)
        ctx.count("oracle.frame_codec")
        enc = H.HsmsMessage(cls(system), b"").blocks[0].encode()
        if enc != wire.hsms_control(st, system):
            ctx.violation("control-frame-mismatch", {"stype": st, "encoded": enc, "reference": wire.hsms_control(st, system)})
    system = rng.getrandbits(32)
    enc = H.HsmsMessage(H.HsmsStreamFunctionHeader(system, 6, 11, True, 300), b"\x01\x00").blocks[0].encode()
    if enc != wire.hsms_data(6, 11, True, system, b"\x01\x00", session=300):
        ctx.violation("data-frame-mismatch", {"encoded": enc})


class Session:
    """A selected passive endpoint; streams are fed with fresh system bytes each time."""

    def __init__(self, ctx):
        from lib.hsmsrig import Rig

        self.ctx = ctx
        self.rig = Rig(active=False)
        self.ok = self.rig.connect_and_select()
        self.sysgen = gen.system_bytes(ctx.rng, 0x2000, p=0.02)
        self.seen_delivered = 0
        self.seen_frames = len(self.rig.pipe.frames())

    def make_stream(self, spec):
        """spec: list of ('data', (S,F), wbit, body) | ('linktest',) -> (bytes, expectations, frame boundaries)."""
        out = bytearray()
        expect_msgs, expect_rsp, bounds = [], [], []
        system = None
        for item in spec:
            # ('twin', item): the same header as the frame before it (system bytes included), e.g. unsolicited messages of a peer
            # that does not count its system bytes, or its Linktest requests with constant system bytes: still one frame each
            twin = item[0] == "twin"
            if twin:
                item = item[1]
                self.ctx.count("stream.frames_repeating_the_previous_header")
            if not twin or system is None:
                system = next(self.sysgen)
            if item[0] == "data":
                (s, f), wbit, body = item[1], item[2], item[3]
                fr = wire.hsms_data(s, f, wbit, system, body, session=0)
                expect_msgs.append((system, s, f, wbit, body))
            else:
                fr = wire.hsms_control(wire.LINKTEST_REQ, system)
                expect_rsp.append(system)
            bounds.append((len(out), len(out) + len(fr)))
            out += fr
        return bytes(out), expect_msgs, expect_rsp, bounds

    def deliver(self, data, segs, expect_msgs, expect_rsp, label, bounds):
        ctx, rig = self.ctx, self.rig
        pos = 0
        for n in segs:
            rig.pipe.feed(data[pos:pos + n])
            pos += n
        want_d = self.seen_delivered + len(expect_msgs)

        def done():
            return len(rig.delivered) >= want_d and \
                sum(1 for f in rig.pipe.frames()[self.seen_frames:] if f.stype == wire.LINKTEST_RSP) >= len(expect_rsp)
        if not rig.wait(done, timeout=20.0):
            rig.confirm_absent(done, 0.5)
        got = [(m["system"], m["stream"], m["function"], m["wbit"], m["body"]) for m in rig.delivered[self.seen_delivered:]]
        frames = rig.pipe.frames()[self.seen_frames:]
        rsp = [f.system for f in frames if f.stype == wire.LINKTEST_RSP]
        other = [f.describe() for f in frames if f.stype != wire.LINKTEST_RSP]
        self.seen_delivered = len(rig.delivered)
        self.seen_frames = len(rig.pipe.frames())
        ctx.count("oracle.partition")
        wit = {"partition": label, "segments": segs[:40], "n_segments": len(segs), "stream_len": len(data),
               "frames": [f"{a}-{b}" for a, b in bounds][:14]}
        if got != expect_msgs:
            lost = [m[0] for m in expect_msgs if m[0] not in [g[0] for g in got]]
            ctx.violation("delivery-differs-from-sent", {
                **wit, "sent": [(hex(m[0]), f"S{m[1]}F{m[2]}", len(m[4])) for m in expect_msgs][:14],
                "delivered": [(hex(m[0]), f"S{m[1]}F{m[2]}", len(m[4])) for m in got][:14], "lost_systems": [hex(x) for x in lost][:8]})
            return False
        if rsp != expect_rsp:
            ctx.violation("linktest-responses-differ", {**wit, "requests": [hex(x) for x in expect_rsp], "responses": [hex(x) for x in rsp]})
            return False
        if other:
            ctx.violation("unexpected-frames-sent", {**wit, "frames": other[:6]})
            return False
        if rig.max_in_callback > 1:
            ctx.violation("overlapping-delivery", {**wit, "max_concurrent_callbacks": rig.max_in_callback})
        return True


def _classify(ctx, segs, bounds):
    cuts = set(itertools.accumulate(segs[:-1]))
    nontrivial = False
    for a, b in bounds:
        for c in cuts:
            if a < c < b:
                nontrivial = True
                off = c - a
                ctx.count("cut.in_length" if off < 4 else "cut.in_header" if off < 14 else "cut.in_body")
    pos = 0
    for n in segs:
        inside = sum(1 for a, b in bounds if a >= pos and b <= pos + n)
        if inside >= 2:
            ctx.count("partition.coalesced")
            nontrivial = True
        pos += n
    return nontrivial


def _random_spec(rng, big=False):
    ho = _header_only()
    spec = []
    for _ in range(rng.randint(1, 12)):
        r = rng.random()
        if r < 0.2:
            spec.append(("linktest",))
        else:
            blen = rng.choice([0, 0, 1, 2, 3, 10, 255, 256, 1000, 4096])
            if big and rng.random() < 0.15:
                blen = (1 << 20) + 1
            spec.append(("data", rng.choice(ho), rng.random() < 0.5, rng.randbytes(blen)))
        if rng.random() < 0.12:
            prev = spec[-1]
            spec.append(("twin", prev if prev[0] == "linktest" or rng.random() < 0.3 else ("data", prev[1], prev[2], rng.randbytes(rng.choice([0, 1, 5, 300])))))
    return spec


def _part_b(ctx):
    rng = ctx.rng
    sess = Session(ctx)
    if not sess.ok:
        ctx.violation("cannot-select", {"frames": [f.describe() for f in sess.rig.pipe.frames()], "state": sess.rig.state})
        return
    ho = _header_only()
    # enumerated: all 2-cut partitions of a fixed 60-byte 3-frame stream (sharded)
    fixed = [("data", ho[0], True, b"\x01\x02\x03\x04"), ("linktest",), ("data", ho[1 % len(ho)], False, b"ABCDEFGHIJKLMN")]
    idx = 0
    total = None
    for c1, c2 in itertools.combinations(range(1, 60), 2):
        idx += 1
        if not ctx.mine(idx):
            continue
        data, em, er, bounds = sess.make_stream(fixed)
        assert len(data) == 60, len(data)
        segs = gen.segments_from_cuts(len(data), [c1, c2])
        ctx.case(("2cut", c1, c2), nontrivial=_classify(ctx, segs, bounds))
        ctx.count("enumerated.two_cut")
        if not sess.deliver(data, segs, em, er, f"2cut@{c1},{c2}", bounds):
            sess = Session(ctx)
    ctx.exhaustive["two_cut_partitions_of_60_byte_stream"] = True
    nstreams = 12 if ctx.quick else 400
    for si in range(nstreams):
        spec = _random_spec(rng, big=(si % 6 == 5))
        probe, _, _, _ = sess.make_stream(spec)
        total = len(probe)
        parts = [("whole", None), ("bytes", None)]
        # every single cut (enumerated) when the stream is small, else sampled cuts incl. all cuts in the first header
        if total <= 400:
            parts += [("cut", [c]) for c in range(1, total)]
        else:
            parts += [("cut", [c]) for c in list(range(1, 20)) + [rng.randint(1, total - 1) for _ in range(20)]]
        parts += [("random", None)] * (6 if ctx.quick else 20)
        if total > 3000:
            parts = [p for p in parts if p[0] != "bytes"] + [("chunk7", None)]
        sent_sample = False
        for kind, cuts in parts:
            data, em, er, bounds = sess.make_stream(spec)
            if kind == "cut":
                segs = gen.segments_from_cuts(len(data), cuts)
            elif kind == "chunk7":
                segs = [1021] * (len(data) // 1021) + ([len(data) % 1021] if len(data) % 1021 else [])
            else:
                segs = gen.partitions(rng, len(data), kind)
            nt = _classify(ctx, segs, bounds)
            ctx.case(("stream", si, kind, tuple(cuts) if cuts else tuple(segs[:50]), len(data)), nontrivial=nt)
            if not sent_sample and kind == "random":
                ctx.sample({"stream": [s[0] if s[0] in ("linktest", "twin") else f"S{s[1][0]}F{s[1][1]}{'W' if s[2] else ''} body {len(s[3])}" for s in spec],
                            "segments": segs[:20]})
                sent_sample = True
            if not sess.deliver(data, segs, em, er, kind if not cuts else f"cut@{cuts}", bounds):
                sess = Session(ctx)
                if not sess.ok:
                    ctx.unsure("could not re-establish a selected session after a violation")
                    return
    sess.rig.close()


def _part_d(ctx, n):
    """Hand-over between the thread that receives segments and the thread that frames them: a frame arrives in two segments
    a few microseconds apart, with nothing after it, under seeded yield injection. It must be delivered without further traffic."""
    import time

    from lib import sched

    rng = ctx.rng
    inj = sched.YieldInjector(["secsgem/common/protocol.py", "secsgem/hsms/protocol.py", "secsgem/common/protocol_dispatcher.py",
                               "secsgem/common/byte_queue.py"])
    inj.install()
    sess = Session(ctx)
    ho = _header_only()
    sigs = set()
    try:
        for i in range(n):
            st, fn = rng.choice(ho)
            system = next(sess.sysgen)
            frame = wire.hsms_data(st, fn, False, system, rng.randbytes(rng.choice([0, 1, 20, 200])))
            cut = rng.choice([1, 3, 4, 5, 13, 14, len(frame) - 1, rng.randint(1, len(frame) - 1)])
            cut = max(1, min(cut, len(frame) - 1))
            inj.begin(rng.getrandbits(32), p=rng.choice([0.2, 0.4]))
            n0 = len(sess.rig.delivered)
            sess.rig.pipe.feed(frame[:cut])
            pause = rng.choice([0.0, 0.0, 0.00005, 0.0002, 0.001])
            if pause:
                time.sleep(pause)
            sess.rig.pipe.feed(frame[cut:])
            # every other time a second, complete frame follows at once: the receiving thread appends it while the framing
            # thread is taking the first one out of the buffer
            follow = []
            if i % 2 == 1:
                for _ in range(rng.choice([1, 1, 2, 3])):
                    s2 = next(sess.sysgen)
                    follow.append(s2)
                    st2, fn2 = rng.choice(ho)
                    pause2 = rng.choice([0.0, 0.0, 0.00002, 0.0001])
                    if pause2:
                        time.sleep(pause2)
                    sess.rig.pipe.feed(wire.hsms_data(st2, fn2, False, s2, rng.randbytes(rng.choice([0, 1, 20, 200]))))
                ctx.count("oracle.back_to_back_frames", len(follow))

            def done():
                return len(sess.rig.delivered) > n0 + len(follow)
            ok = sess.rig.wait(done, timeout=3.0, min_idle=0.3)
            sig, yields, _ = inj.end()
            sigs.add(sig)
            ctx.count("oracle.two_segment_handover")
            ctx.case(("D", sig), nontrivial=True)
            if not ok and sess.rig.confirm_absent(done):
                ctx.violation("frame-complete-in-the-buffer-but-not-delivered-until-more-traffic",
                              {"frame_length": len(frame), "cut": cut, "pause_s": pause, "schedule_signature": sig})
                sess.rig.close()
                sess = Session(ctx)
                continue
            got = sess.rig.delivered[n0:]
            if [m["system"] for m in got] != [system] + follow:
                if follow:
                    sess.rig.confirm_absent(done)
                    got = sess.rig.delivered[n0:]
                if [m["system"] for m in got] != [system] + follow:
                    ctx.violation("delivery-differs-from-sent", {"partition": "two segments" + (", then whole frames back to back" if follow else ""),
                                                                  "delivered": [hex(m["system"]) for m in got], "sent": [hex(x) for x in [system] + follow]})
                    sess.rig.close()
                    sess = Session(ctx)
        ctx.count("handover.distinct_schedule_signatures", len(sigs))
    finally:
        inj.uninstall()
        sess.rig.close()


def _part_c(ctx, nstreams):
    """The same history oracle over a real loopback socket: the library's own TCP receiver thread (recv size, non-blocking
    reads) sits between the peer's writes and the framing. Frame lengths straddle the receiver's read size and its multiples."""
    import socket
    import threading
    import time

    import secsgem.hsms as H
    from lib import ports, stuck

    rng = ctx.rng
    ho = _header_only()
    port = ports.free_port(ctx.shard, ctx.nshards)
    settings = H.HsmsSettings(connect_mode=H.HsmsConnectMode.PASSIVE, address="127.0.0.1", port=port)
    proto = settings.create_protocol()
    delivered = []
    proto.events.message_received += lambda d: delivered.append((d["message"].header.system, d["message"].header.stream,
                                                                 d["message"].header.function, bytes(d["message"].data)))
    proto._connection.select_timeout = 0.05  # noqa: SLF001
    proto.enable()
    sock = None
    try:
        end = time.monotonic() + 5
        while sock is None and time.monotonic() < end:
            try:
                sock = socket.create_connection(("127.0.0.1", port), timeout=1.0)
            except OSError:
                time.sleep(0.02)
        if sock is None:
            ctx.unsure("part C: could not connect to the passive endpoint")
            return
        sock.setsockopt(socket.IPPROTO_TCP, socket.TCP_NODELAY, 1)
        sock.sendall(wire.hsms_control(wire.SELECT_REQ, 1))
        sock.settimeout(3.0)
        got = b""
        try:
            while len(got) < 14:
                chunk = sock.recv(14 - len(got))
                if not chunk:
                    break
                got += chunk
        except OSError:
            pass
        if len(got) < 14 or got[9] != wire.SELECT_RSP:
            ctx.unsure(f"part C: no Select.rsp from the endpoint ({got.hex()})")
            return
        sysgen = itertools.count(0x5000)
        # total frame length = 14 + body; the receiver reads 1024 bytes at a time
        special = [1024 - 14, 2048 - 14, 3072 - 14, 1023 - 14, 1025 - 14, 512 - 14, 4096 - 14, 8192 - 14, 1024 * 64 - 14, 0, 1, 1010, 1011]
        for si in range(nstreams):
            k = rng.randint(1, 6)
            spec = []
            for _ in range(k):
                blen = rng.choice(special) if rng.random() < 0.7 else rng.randint(0, 5000)
                st, fn = rng.choice(ho)
                spec.append((next(sysgen), st, fn, rng.randbytes(blen)))
            data = b"".join(wire.hsms_data(st, fn, False, sy, body, session=0) for sy, st, fn, body in spec)
            mode = rng.choice(["one_write", "per_frame", "per_frame_paused", "random_cuts", "1024_chunks", "1024_chunks_paused"])
            n0 = len(delivered)
            if mode == "one_write":
                sock.sendall(data)
            elif mode.startswith("per_frame"):
                for sy, st, fn, body in spec:
                    sock.sendall(wire.hsms_data(st, fn, False, sy, body, session=0))
                    if mode.endswith("paused"):
                        time.sleep(0.03)
            elif mode.startswith("1024_chunks"):
                for pos in range(0, len(data), 1024):
                    sock.sendall(data[pos:pos + 1024])
                    if mode.endswith("paused"):
                        time.sleep(0.01)
            else:
                pos = 0
                while pos < len(data):
                    n = rng.choice([1, 13, 14, 1024, 2048, rng.randint(1, 3000)])
                    sock.sendall(data[pos:pos + n])
                    pos += n
                    if rng.random() < 0.3:
                        time.sleep(0.002)
            want = [(sy, st, fn, body) for sy, st, fn, body in spec]
            end = time.monotonic() + 5
            while time.monotonic() < end and len(delivered) - n0 < len(want):
                time.sleep(0.002)
            if delivered[n0:] != want:
                time.sleep(2.0)      # wall-clock grace before calling a message lost
            gotm = delivered[n0:]
            ctx.count("oracle.socket_stream")
            ctx.case(("C", mode, tuple(len(b) for _, _, _, b in spec)), nontrivial=True)
            if any((len(b) + 14) % 1024 == 0 for _, _, _, b in spec):
                ctx.count("socket.frame_length_multiple_of_receiver_read_size")
            if gotm != want:
                lost = [hex(w[0]) for w in want if w[0] not in [g[0] for g in gotm]]
                ctx.violation("socket-delivery-differs-from-sent", {"write_mode": mode, "frame_lengths": [len(b) + 14 for _, _, _, b in spec],
                                                                    "sent": len(want), "delivered": len(gotm), "lost_systems": lost[:6],
                                                                    "order_kept": [g[0] for g in gotm] == [w[0] for w in want if w[0] in [g[0] for g in gotm]]})
                return
    finally:
        done = threading.Event()

        @stuck.harness_thread
        def dis():
            try:
                proto.disable()
            finally:
                done.set()
        threading.Thread(target=dis, daemon=True).start()
        done.wait(5)
        if sock is not None:
            try:
                sock.close()
            except OSError:
                pass


def _part_e(ctx, rounds):
    """Pauses between frames. The session is configured with a short T8 (the time allowed between two characters *of one
    message*); frames are cut at a random offset with both parts right behind each other, and the line is quiet for more than T8
    between one frame and the next. No character of a message is late, so every frame is delivered."""
    from lib.hsmsrig import Rig

    rng = ctx.rng
    t8 = 0.25
    rig = Rig(active=False, t8=t8)
    try:
        if not rig.connect_and_select():
            ctx.violation("cannot-select", {"frames": [f.describe() for f in rig.pipe.frames()], "state": rig.state, "t8": t8})
            return
        ho = _header_only()
        sysgen = gen.system_bytes(rng, 0x52000, p=0.02)
        sent = []
        for r in range(rounds):
            system = next(sysgen)
            s_f = rng.choice(ho)
            body = rng.randbytes(rng.choice([0, 3, 40, 600]))
            fr = wire.hsms_data(s_f[0], s_f[1], False, system, body, session=0)
            cut = rng.randint(1, len(fr) - 1)
            before = len(rig.delivered)
            rig.pipe.feed(fr[:cut])
            time.sleep(rng.choice([0.0, 0.01, 0.05]))      # well below T8
            rig.pipe.feed(fr[cut:])
            sent.append((system, s_f[0], s_f[1], body))
            ctx.count("oracle.frames_after_a_pause_longer_than_T8")
            ctx.case(("pause", r, cut, len(fr)), nontrivial=True)
            if not rig.wait(lambda: len(rig.delivered) > before, timeout=10.0):
                rig.confirm_absent(lambda: len(rig.delivered) > before)
            got = [(m["system"], m["stream"], m["function"], m["body"]) for m in rig.delivered]
            if got != sent:
                ctx.violation("frame-after-a-quiet-period-not-delivered", {
                    "t8": t8, "round": r, "cut_at": cut, "frame_len": len(fr), "quiet_before_s": 0 if r == 0 else round(t8 * 1.8, 2),
                    "sent": [(hex(x[0]), f"S{x[1]}F{x[2]}", len(x[3])) for x in sent][-4:],
                    "delivered": [(hex(x[0]), f"S{x[1]}F{x[2]}", len(x[3])) for x in got][-4:], "state": rig.state})
                return
            time.sleep(t8 * 1.8)                            # the line is quiet for longer than T8
    finally:
        rig.close()


def _part_f(ctx, rounds):
    """Segmentation on a connection that follows one which ended inside a frame: whatever the receiver remembered of the
    unfinished frame (bytes, announced length) must not shape the framing of the new byte stream."""
    rng = ctx.rng
    sess = Session(ctx)
    ho = _header_only()
    for r in range(rounds):
        if not sess.ok:
            ctx.unsure("part F: could not establish a selected session")
            return
        st, fn = rng.choice(ho)
        body = rng.randbytes(rng.choice([0, 10, 300, 3000, 70000]))
        frame = wire.hsms_data(st, fn, False, next(sess.sysgen), body)
        cut = rng.choice([1, 2, 3, 4, 5, 9, 13, 14, len(frame) - 1, rng.randint(1, len(frame) - 1)])
        cut = max(1, min(cut, len(frame) - 1))
        prefix = frame[:cut]
        # optionally a few complete frames before the unfinished one, and the prefix itself in several segments
        lead = _random_spec(rng) if rng.random() < 0.5 else []
        if lead:
            data, em, er, bounds = sess.make_stream(lead)
            if not sess.deliver(data, gen.partitions(rng, len(data), "random"), em, er, "random", bounds):
                sess = Session(ctx)
                continue
        for seg in ([prefix] if rng.random() < 0.5 else [prefix[i:i + 1021] for i in range(0, len(prefix), 1021)]):
            sess.rig.pipe.feed(seg)
        sess.rig.quiesce(1.0)
        sess.rig.pipe.peer_close()
        if not sess.rig.pipe.wait_closed(5.0):
            ctx.unsure("part F: the close sequence did not finish (C09 judges that)")
            sess.rig.close()
            sess = Session(ctx)
            continue
        ctx.count("oracle.new_connection_after_unfinished_frame")
        ctx.count("unfinished.in_length" if cut < 4 else "unfinished.in_header" if cut < 14 else "unfinished.in_body")
        if not sess.rig.connect_and_select(system=next(sess.sysgen)):
            ctx.violation("delivery-differs-from-sent:select-not-answered-on-the-connection-after-an-unfinished-frame",
                          {"unfinished_frame_length": len(frame), "bytes_received_of_it": cut, "state": sess.rig.state,
                           "sent_on_new_connection": [f.describe() for f in sess.rig.pipe.frames()][:4]})
            sess.rig.close()
            sess = Session(ctx)
            continue
        sess.seen_delivered = len(sess.rig.delivered)
        sess.seen_frames = len(sess.rig.pipe.frames())
        spec = _random_spec(rng)
        data, em, er, bounds = sess.make_stream(spec)
        kind = rng.choice(["whole", "random", "random", "bytes"] if len(data) < 3000 else ["whole", "random"])
        segs = gen.partitions(rng, len(data), kind)
        ctx.case(("F", cut, len(frame), kind, tuple(segs[:30]), len(data)), nontrivial=True)
        if not sess.deliver(data, segs, em, er, f"after-unfinished-frame({cut}/{len(frame)}):{kind}", bounds):
            sess.rig.close()
            sess = Session(ctx)
    sess.rig.close()


def _part_g(ctx, rounds):
    """Data frames with the frame that ends the selected session (Deselect.req, Separate.req) directly behind them - in one
    segment, or cut anywhere - while the application may still be busy with an earlier message: every data frame arrived in
    SELECTED, so every one is delivered, in order, and none is rejected; then the session ends."""
    import time

    rng = ctx.rng
    ho = _header_only()
    sess = Session(ctx)
    if not sess.ok:
        ctx.unsure("part G: could not establish a selected session")
        return
    for rnd in range(rounds):
        rig = sess.rig
        slow = rng.random() < 0.6
        rig.message_hook = (lambda rec: time.sleep(0.004)) if slow else None
        n = rng.randint(1, 6)
        frames, expect = [], []
        for _ in range(n):
            system = next(sess.sysgen)
            (s, f), w, body = rng.choice(ho), rng.random() < 0.3, rng.randbytes(rng.choice([0, 3, 40]))
            frames.append(wire.hsms_data(s, f, w, system, body))
            expect.append((system, s, f, w, body))
        end = rng.choice(["Deselect.req", "Separate.req"])
        esys = next(sess.sysgen)
        frames.append(wire.hsms_control(wire.DESELECT_REQ if end == "Deselect.req" else wire.SEPARATE_REQ, esys))
        data = b"".join(frames)
        kind = rng.choice(["whole", "whole", "random", "bytes"])
        segs = gen.partitions(rng, len(data), kind)
        before, fb = len(rig.delivered), len(rig.pipe.frames())
        ctx.case(("session-end-behind-data", rnd, n, end, kind, slow), nontrivial=True)
        ctx.count("oracle.data_directly_followed_by_the_end_of_the_session")
        pos = 0
        for k in segs:
            rig.pipe.feed(data[pos:pos + k])
            pos += k

        def done():
            return rig.state != "CONNECTED_SELECTED" and len(rig.delivered) >= before + n
        if not rig.wait(done, timeout=10.0):
            rig.confirm_absent(done, 0.5)
        got = [(m["system"], m["stream"], m["function"], m["wbit"], m["body"]) for m in rig.delivered[before:]]
        out = rig.pipe.frames()[fb:]
        rejects = [f.describe() for f in out if f.stype == wire.REJECT_REQ]
        if got != expect or rejects:
            ctx.violation("data-received-in-SELECTED-not-delivered-when-the-session-end-follows-at-once",
                          {"ended_by": end, "partition": kind, "segments": segs[:20], "application_busy": slow,
                           "sent": [hex(m[0]) for m in expect], "delivered": [hex(m[0]) for m in got], "rejects": rejects[:4], "state": rig.state})
            rig.close()
            sess = Session(ctx)
            if not sess.ok:
                ctx.unsure("part G: could not re-establish a selected session after a violation")
                return
            continue
        # select again for the next round
        rsys = next(sess.sysgen)
        rig.pipe.feed(wire.hsms_control(wire.SELECT_REQ, rsys))
        ok = rig.wait(lambda: rig.state == "CONNECTED_SELECTED" and any(f.stype == wire.SELECT_RSP and f.system == rsys for f in rig.pipe.frames()[fb:]), 5.0)
        sess.seen_delivered, sess.seen_frames = len(rig.delivered), len(rig.pipe.frames())
        if not ok:
            rig.close()
            sess = Session(ctx)
            if not sess.ok:
                ctx.unsure("part G: could not select again (C05 judges that)")
                return
    sess.rig.close()


def run(ctx):
    from lib import vtime
    vtime.install()   # the protocol's 30 s linktest timer must not fire in the middle of a long session
    _part_a(ctx, 600 if ctx.quick else 6000)
    _part_b(ctx)
    _part_c(ctx, 25 if ctx.quick else 600)
    _part_d(ctx, 400 if ctx.quick else 20000)
    _part_f(ctx, 12 if ctx.quick else 400)
    _part_g(ctx, 40 if ctx.quick else 1500)
    _part_e(ctx, 4 if ctx.quick else 40)     # (last: part A codes SECS-I blocks before anything touches the HSMS codec in this process)
