"""C16 - SECS-I blocks split, checksum and reassemble any message body without loss.

Monitors: SecsIMessage(header, body).blocks vs a reference splitter; SecsIBlock.encode/decode vs the reference
block codec; reassembly observed at message_received of a real SecsIProtocol fed block by block through the
ENQ/EOT/ACK handshake (blocks of several transactions interleaved); exhaustive single-byte corruption of
encoded blocks must never yield an accepted block.
"""

from __future__ import annotations

import itertools
import struct

from lib import wire

PROPERTY = "C16"
LEVEL = "fault_enumeration"
RULE = ("bodies of boundary lengths (0, 1, 243..245, 487..489, k*244+-1, random <= 64 KiB, the 32767-block maximum in "
        "thorough) with header fields over their full ranges, split/encoded/decoded and compared with the reference "
        "block codec; 2-4 interleaved transactions reassembled by a real SecsIProtocol; every header/data/checksum byte "
        "position x masks {single bits, 0xFF, the mask that zeroes the byte, random} of encoded blocks with data lengths 0,1,243,244 "
        "and of a block whose checksum is 0x0081 (enumerated); 1-3 bytes altered at once with the checksum forced to 0000 / FFFF / "
        "swapped / one byte zero / sum of data only (judged by the reference parser); system bytes reused after a completed message; "
        "two protocol objects fed multi-block messages with the same system bytes (interleaved, or abandoned and repeated); "
        "distinct by (oracle, header fields, body hash | corruption position and mask); all are non-trivial; plus: rounds with 33-70 multi-block messages open at the same moment; a slow sender whose gaps between blocks stay below a short T4 while the whole transfer of 4-6 blocks takes longer than T4")
ASSUMPTIONS = ["lib/wire.py implements the SEMI E4 block layout and checksum", "corruption of the length byte is outside the "
               "statement and only required not to yield an accepted block", "reassembly is fed in order within a message"]
LEVEL_TEXT = ("Fault enumeration: every single-byte corruption (position x mask set) of four block sizes is applied to the "
              "real decoder; block arithmetic and reassembly are monitored differentially against a reference splitter on "
              "boundary and random lengths.")
LEVEL_NOTE = "Trusts lib/wire.py; body contents sampled; multi-byte corruptions are not explored."
TECHNIQUE = "exhaustive single-byte fault injection + runtime differential oracle (reference block codec)"
SHARDS = {"quick": 8, "thorough": 16}
TIMEOUT = {"quick": 300, "thorough": 3000}
FLOORS = {"oracle.two_endpoints": 10, "oracle.corruption_multi": 1000, "reassembly.system_bytes_reused_after_completion": 10, "oracle.split": 300, "oracle.block_codec": 1000, "oracle.corruption": 2000, "oracle.reassembly": 20,
          "reassembly.interleaved_messages": 20, "reassembly.transfers_longer_than_T4_with_gaps_shorter_than_T4": 16}
EXHAUSTIVE_ALL = False


def _hdr(rng):
    return dict(device_id=rng.choice([0, 1, 0x7FFF, rng.randint(0, 0x7FFF)]), rbit=rng.random() < 0.5,
                stream=rng.choice([0, 1, 127, rng.randint(0, 127)]), wbit=rng.random() < 0.5,
                function=rng.choice([0, 1, 255, rng.randint(0, 255)]),
                system=rng.choice([0, 1, 0xFFFFFFFF, 0x80000000, rng.getrandbits(32)]))


def _split_case(ctx, h, body, S):
    """Library splitter and block codec vs reference."""
    ctx.case(("split", tuple(sorted(h.items())), len(body), hash(body)))
    ctx.count("oracle.split")
    wit = {"header": h, "body_len": len(body)}
    try:
        header = S.SecsIHeader(h["system"], h["device_id"], h["stream"], h["function"], 0, h["rbit"], h["wbit"])
        msg = S.SecsIMessage(header, body)
        blocks = msg.blocks
    except Exception as exc:
        ctx.violation(f"split-raises:{type(exc).__name__}", {**wit, "error": repr(exc)[:200]})
        return None
    ref = wire.secs1_split(h["device_id"], h["rbit"], h["stream"], h["wbit"], h["function"], h["system"], body)
    if len(blocks) != len(ref):
        ctx.violation("split-block-count", {**wit, "got": len(blocks), "want": len(ref)})
        return None
    raws = []
    for i, (blk, (rf, rdata)) in enumerate(zip(blocks, ref)):
        bh = blk.header
        got = {"device_id": bh.device_id, "rbit": bh.from_equipment, "stream": bh.stream, "wbit": bh.require_response,
               "function": bh.function, "block": bh.block, "ebit": bh.last_block, "system": bh.system}
        if got != rf or bytes(blk.data) != rdata:
            ctx.violation("split-block-fields", {**wit, "index": i, "got": got, "want": rf, "data_len": len(blk.data)})
            return None
        raw = wire.secs1_block(wire.secs1_header(**rf), rdata)
        if i in (0, len(blocks) - 1) or ctx.rng.random() < 0.05 or len(blocks) < 8:
            ctx.count("oracle.block_codec")
            try:
                enc = blk.encode()
                if enc != raw:
                    ctx.violation("block-encode-mismatch", {**wit, "index": i, "encoded": enc[:20], "reference": raw[:20]})
                dec = S.SecsIBlock.decode(raw)
                if dec is None:
                    ctx.violation("block-decode-rejects-valid", {**wit, "index": i})
                else:
                    dh = dec.header
                    got2 = {"device_id": dh.device_id, "rbit": dh.from_equipment, "stream": dh.stream, "wbit": dh.require_response,
                            "function": dh.function, "block": dh.block, "ebit": dh.last_block, "system": dh.system}
                    if got2 != rf or bytes(dec.data) != rdata:
                        ctx.violation("block-decode-mismatch", {**wit, "index": i, "got": got2, "want": rf})
            except Exception as exc:
                ctx.violation(f"block-codec-raises:{type(exc).__name__}", {**wit, "index": i, "error": repr(exc)[:200]})
        raws.append(raw)
    if bytes(msg.data) != body:
        ctx.violation("message-data-differs", {**wit})
    return raws


def _corruption(ctx, S):
    """Every single-byte corruption of header / data / checksum (and the length byte) of four block sizes."""
    rng = ctx.rng
    idx = 0
    low = dict(device_id=0, rbit=False, stream=0, wbit=False, function=0, system=0)     # checksum 0x0081: one byte from 0x0000
    for dlen, h in ((0, _hdr(rng)), (1, _hdr(rng)), (243, _hdr(rng)), (244, _hdr(rng)), (0, low), (1, low)):
        data = rng.randbytes(dlen) if h is not low else bytes(dlen)
        raw = wire.secs1_block(wire.secs1_header(block=1, ebit=True, **h), data)
        for pos in range(len(raw)):
            # the mask that zeroes the byte is always among them (a zero checksum, length or field is a classic special case)
            for mask in (sorted({1, 2, 4, 8, 16, 32, 64, 128, 0xFF, raw[pos] or 0xFF} | {rng.randint(1, 255) for _ in range(3)}) if ctx.quick else range(1, 256)):
                idx += 1
                if not ctx.mine(idx):
                    continue
                bad = bytearray(raw)
                bad[pos] ^= mask
                region = "length" if pos == 0 else "header" if pos <= 10 else "checksum" if pos >= len(raw) - 2 else "data"
                ctx.case(("corrupt", dlen, pos, mask))
                ctx.count("oracle.corruption")
                ctx.count(f"corruption.{region}")
                try:
                    res = S.SecsIBlock.decode(bytes(bad))
                except (ValueError, struct.error):
                    ctx.count("corruption.raised")
                    continue
                except Exception as exc:
                    ctx.violation(f"decode-of-corrupted-block-crashes:{type(exc).__name__}", {"position": pos, "mask": mask, "error": repr(exc)[:200]})
                    continue
                if res is not None:
                    ctx.violation(f"corrupted-block-accepted:{region}", {"data_len": dlen, "position": pos, "mask": mask,
                                                                       "original": raw[:16], "corrupted": bytes(bad)[:16]})
    ctx.exhaustive["single_byte_corruption_of_4_block_sizes"] = True
    # several bytes altered at once, checksum bytes forced to special values; judged by the reference block parser (an
    # alteration that happens to leave a consistent block cannot be detected by anybody and is not counted)
    for i in range(6000 if ctx.quick else 200000):
        if not ctx.mine(i):
            continue
        dlen = rng.choice([0, 1, 2, 10, 243, 244, rng.randint(0, 244)])
        h = _hdr(rng) if rng.random() < 0.8 else low
        data = rng.randbytes(dlen) if rng.random() < 0.8 else bytes(dlen)
        raw = wire.secs1_block(wire.secs1_header(block=rng.choice([1, 2, 255, 0x7FFF]), ebit=rng.random() < 0.5, **h), data)
        bad = bytearray(raw)
        for _ in range(rng.randint(1, 3)):
            pos = rng.randrange(1, len(bad))
            bad[pos] = rng.choice([0, 0xFF, bad[pos] ^ (1 << rng.randrange(8)), rng.randrange(256)])
        how = rng.choice(["as-is", "zero", "ffff", "swapped", "low-zero", "high-zero", "sum-of-data-only"])
        if how == "zero":
            bad[-2:] = b"\x00\x00"
        elif how == "ffff":
            bad[-2:] = b"\xff\xff"
        elif how == "swapped":
            bad[-2:] = bytes([bad[-1], bad[-2]])
        elif how == "low-zero":
            bad[-1] = 0
        elif how == "high-zero":
            bad[-2] = 0
        elif how == "sum-of-data-only":
            bad[-2:] = struct.pack(">H", sum(bad[11:-2]) & 0xFFFF)
        if bytes(bad) == raw:
            continue
        if wire.secs1_parse_block(bytes(bad)) is not None:
            ctx.count("corruption.multi.undetectable_consistent_block")
            continue
        ctx.case(("corrupt-multi", bytes(bad)))
        ctx.count("oracle.corruption_multi")
        ctx.count(f"corruption.multi.checksum_{how}")
        try:
            res = S.SecsIBlock.decode(bytes(bad))
        except (ValueError, struct.error):
            continue
        except Exception as exc:
            ctx.violation(f"decode-of-corrupted-block-crashes:{type(exc).__name__}", {"corrupted": bytes(bad)[:24], "error": repr(exc)[:200]})
            continue
        if res is not None:
            ctx.violation(f"corrupted-block-accepted:several-bytes:checksum-{how}", {"data_len": dlen, "original": raw[:16], "corrupted": bytes(bad)[:16],
                                                                                   "checksum_bytes": bytes(bad[-2:]).hex(), "sum_of_payload": hex(sum(bad[1:-2]) & 0xFFFF)})


def _block_numbers(ctx, S):
    """Blocks with every boundary block number (and random ones) encode / decode exactly, with and without the end bit."""
    rng = ctx.rng
    numbers = sorted({0, 1, 2, 127, 128, 255, 256, 511, 512, 1023, 1024, 2047, 2048, 4095, 4096, 8191, 8192, 16383, 16384, 32766, 32767}
                     | {rng.randint(0, 32767) for _ in range(40)})
    for n in numbers:
        for ebit in (False, True):
            h = _hdr(rng)
            data = rng.randbytes(rng.choice([0, 1, 10, 244]))
            fields = dict(block=n, ebit=ebit, **h)
            raw = wire.secs1_block(wire.secs1_header(**fields), data)
            ctx.case(("blockno", n, ebit))
            ctx.count("oracle.block_codec")
            ctx.count("enumerated.block_numbers")
            try:
                hdr = S.SecsIHeader(h["system"], h["device_id"], h["stream"], h["function"], n, h["rbit"], h["wbit"], ebit)
                enc = S.SecsIBlock(hdr, data).encode()
                if enc != raw:
                    ctx.violation("block-encode-mismatch:block-number", {"block": n, "ebit": ebit, "encoded": enc[:14], "reference": raw[:14]})
                dec = S.SecsIBlock.decode(raw)
                if dec is None:
                    ctx.violation("block-decode-rejects-valid:block-number", {"block": n, "ebit": ebit})
                elif (dec.header.block, dec.header.last_block, dec.header.system, bytes(dec.data)) != (n, ebit, h["system"], data):
                    ctx.violation("block-decode-mismatch:block-number", {"block": n, "ebit": ebit, "got": [dec.header.block, dec.header.last_block]})
            except Exception as exc:
                ctx.violation(f"block-codec-raises:block-number:{type(exc).__name__}", {"block": n, "error": repr(exc)[:200]})
    ctx.exhaustive["block_number_boundaries"] = True


def _reassembly(ctx, S, nrounds):
    from lib.secsirig import SecsIRig
    import secsgem.common

    rng = ctx.rng
    from secsgem.secs.functions._all import secs_streams_functions
    header_only = sorted((f.stream, f.function) for f in secs_streams_functions if f._data_format is None)
    rig = SecsIRig(device_type=secsgem.common.DeviceType.EQUIPMENT)
    sysgen = itertools.count(rng.randint(1, 1 << 30))
    completed = []        # system bytes of messages this endpoint has already reassembled (a later transaction may reuse them)
    for rnd in range(nrounds):
        k = rng.choice([1, 2, 3, 4]) if rnd % 6 else rng.choice([33, 40, 70])     # now and then many transactions open at once
        if k > 4:
            ctx.count("reassembly.rounds_with_more_than_32_open_messages")
        msgs = []
        # half of the rounds: every open message has the same device id, stream, function and W-bit (two event reports under
        # way at once) - the system bytes are the only thing that tells their blocks apart
        twins = rng.random() < 0.5 and k > 1
        common = (rng.choice(header_only), rng.randint(0, 0x7FFF), rng.random() < 0.5)
        if twins:
            ctx.count("reassembly.rounds_with_messages_that_differ_in_system_bytes_only")
        for _ in range(k):
            s, f = common[0] if twins else rng.choice(header_only)
            system = next(sysgen)
            if completed and rng.random() < 0.25:
                cand = rng.choice(completed)
                if cand not in [m[0]["system"] for m in msgs]:
                    system = cand
                    ctx.count("reassembly.system_bytes_reused_after_completion")
            h = dict(device_id=rng.randint(0, 0x7FFF), rbit=False, stream=s, wbit=rng.random() < 0.5, function=f, system=system)
            if twins:
                h.update(device_id=common[1], wbit=common[2])
            blen = rng.choice([0, 1, 243, 244, 245, 487, 488, 489, 244 * 3, 244 * 3 + 1, rng.randint(0, 1500)]) if k <= 4 else rng.choice([245, 300, 489])
            body = rng.randbytes(blen)
            blocks = [wire.secs1_block(wire.secs1_header(**rf), d) for rf, d in
                      wire.secs1_split(h["device_id"], h["rbit"], h["stream"], h["wbit"], h["function"], h["system"], body)]
            msgs.append((h, body, blocks))
        # interleave: random merge preserving order within each message
        order = []
        idxs = [0] * k
        remaining = [len(m[2]) for m in msgs]
        if k > 4:
            # first block of every message before any second block: all of them are incomplete at the same moment
            order = [(j, 0) for j in range(k)]
            idxs = [1] * k
            remaining = [len(m[2]) - 1 for m in msgs]
        while any(remaining):
            j = rng.choice([i for i in range(k) if remaining[i]])
            order.append((j, idxs[j]))
            idxs[j] += 1
            remaining[j] -= 1
        before = len(rig.delivered)
        ctx.case(("reassembly", tuple((m[0]["system"], len(m[1])) for m in msgs), tuple(order[:40])))
        ctx.count("oracle.reassembly")
        if k > 1:
            ctx.count("reassembly.interleaved_messages")
        ok = True
        for j, bi in order:
            raw = msgs[j][2][bi]
            segs = None
            if rng.random() < 0.3:
                c = rng.randint(1, len(raw) - 1)
                segs = [c, len(raw) - c]
            trace, answer = rig.send_block_to_sut(raw, segs)
            if answer != wire.ACK:
                ctx.violation("valid-block-not-acknowledged", {"trace": trace, "block_len": len(raw), "message": msgs[j][0], "block_index": bi})
                ok = False
                break
        if not ok:
            rig = SecsIRig(device_type=secsgem.common.DeviceType.EQUIPMENT)
            completed = []
            continue
        completed += [m[0]["system"] for m in msgs]
        del completed[:-12]
        rig.wait(lambda: len(rig.delivered) >= before + k, timeout=5.0)
        got = rig.delivered[before:]
        want = {m[0]["system"]: m for m in msgs}
        seen = set()
        for g in got:
            m = want.get(g["system"])
            if m is None or g["system"] in seen:
                ctx.violation("reassembly-unexpected-or-duplicate-message", {"got_system": g["system"], "expected": sorted(want)})
                continue
            seen.add(g["system"])
            h, body, _ = m
            fields = {k2: g[k2] for k2 in ("device_id", "rbit", "wbit", "stream", "function", "system")}
            hw = {k2: h[k2] for k2 in fields}
            if fields != hw or g["body"] != body:
                ctx.violation("reassembly-differs", {"header_got": fields, "header_want": hw, "body_len_got": len(g["body"]),
                                                     "body_len_want": len(body), "order": order[:30]})
        if len(seen) != k:
            if rig.confirm_absent(lambda: len(rig.delivered) >= before + k):
                ctx.violation("reassembly-message-lost", {"delivered": len(got), "expected": k, "order": order[:30],
                                                          "messages": [(m[0]["system"], len(m[1])) for m in msgs]})
        if rnd == 0:
            ctx.sample({"interleaving_of_(message,block)": order[:20], "body_lengths": [len(m[1]) for m in msgs]})
    rig.close()


def _slow_sender(ctx, rounds):
    """A sender that takes its time: every gap between two blocks is shorter than the inter-block time-out T4, but the whole
    transfer takes longer than T4 (a short, non-default T4 keeps the run short). The message must arrive intact."""
    import time

    from lib.secsirig import SecsIRig
    import secsgem.common

    rng = ctx.rng
    for r in range(rounds):
        t4 = 1.0      # (margin of 0.55 s between a gap and T4: a loaded machine does not turn a legal gap into an illegal one)
        rig = SecsIRig(device_type=secsgem.common.DeviceType.EQUIPMENT, t4=t4)
        try:
            nblocks = rng.randint(4, 6)
            body = rng.randbytes(244 * (nblocks - 1) + rng.randint(1, 244))
            h = dict(device_id=rng.randint(0, 0x7FFF), rbit=False, stream=rng.choice([1, 2, 6, 7]), wbit=False, function=rng.choice([1, 3, 5, 11]),
                     system=rng.getrandbits(32))
            blocks = [wire.secs1_block(wire.secs1_header(**rf), d) for rf, d in
                      wire.secs1_split(h["device_id"], h["rbit"], h["stream"], h["wbit"], h["function"], h["system"], body)]
            gap = 0.45 * t4
            t0 = time.monotonic()
            ok = True
            for bi, raw in enumerate(blocks):
                if bi:
                    time.sleep(gap)
                trace, answer = rig.send_block_to_sut(raw, None)
                if answer != wire.ACK:
                    ctx.violation("valid-block-not-acknowledged", {"trace": trace, "block_index": bi, "sender": "slow: gaps of 0.45 x T4"})
                    ok = False
                    break
            took = time.monotonic() - t0
            if not ok:
                continue
            ctx.count("oracle.slow_sender_transfers")
            if took > t4:
                ctx.count("reassembly.transfers_longer_than_T4_with_gaps_shorter_than_T4")
            ctx.case(("slow", nblocks, len(body)), nontrivial=True)
            rig.wait(lambda: len(rig.delivered) >= 1, timeout=3.0)
            got = list(rig.delivered)
            if len(got) != 1 or got[0]["body"] != body or got[0]["system"] != h["system"]:
                if got or rig.confirm_absent(lambda: len(rig.delivered) >= 1):
                    ctx.violation("reassembly-differs", {"sender": f"slow: {nblocks} blocks, gaps of {gap:.2f} s, T4 = {t4} s, transfer took {took:.2f} s",
                                                         "delivered": [(hex(g["system"]), len(g["body"])) for g in got][:4], "body_len_want": len(body)})
        finally:
            rig.close()


def _two_endpoints(ctx, rounds):
    """Two protocol objects in one process (two lines, or a fresh object after a line was given up in the middle of a message)
    receive multi-block messages that carry the same system bytes: each must reassemble exactly its own message."""
    from lib.secsirig import SecsIRig
    import secsgem.common

    rng = ctx.rng

    def message(system, nblocks, rbit=False):
        body = rng.randbytes(244 * (nblocks - 1) + rng.randint(1, 244))
        h = dict(device_id=rng.randint(0, 0x7FFF), rbit=rbit, stream=rng.choice([1, 2, 6, 7]), wbit=False, function=rng.choice([1, 3, 5, 11]), system=system)
        blocks = [wire.secs1_block(wire.secs1_header(**rf), d) for rf, d in
                  wire.secs1_split(h["device_id"], h["rbit"], h["stream"], h["wbit"], h["function"], h["system"], body)]
        return h, body, blocks

    for rnd in range(rounds):
        system = rng.getrandbits(32)
        r1 = SecsIRig(device_type=secsgem.common.DeviceType.EQUIPMENT)
        r2 = SecsIRig(device_type=secsgem.common.DeviceType.EQUIPMENT)
        variant = rng.choice(["interleaved_on_two_lines", "abandoned_then_repeated_on_a_new_object"])
        ctx.count("oracle.two_endpoints")
        ctx.case(("two-endpoints", variant, system), nontrivial=True)
        try:
            if variant == "interleaved_on_two_lines":
                a, b = message(system, rng.choice([2, 3, 4])), message(system, rng.choice([2, 3]))
                order = [(r1, x) for x in a[2]]
                pos = sorted(rng.sample(range(len(order) + 1), len(b[2])))
                for k, (p, blk) in enumerate(zip(pos, b[2])):
                    order.insert(p + k, (r2, blk))
                want = {id(r1): a, id(r2): b}
            else:
                a, b = message(system, 3), message(system, rng.choice([2, 3]))
                order = [(r1, a[2][0]), (r1, a[2][1])] + [(r2, x) for x in b[2]]      # line 1 given up after two blocks
                want = {id(r2): b}
            ok = True
            for rig, raw in order:
                trace, answer = rig.send_block_to_sut(raw)
                if answer != wire.ACK:
                    ctx.violation("valid-block-not-acknowledged", {"variant": variant, "trace": trace})
                    ok = False
                    break
            if not ok:
                continue
            for rig in (r1, r2):
                exp = want.get(id(rig))
                rig.wait(lambda: len(rig.delivered) >= (1 if exp else 0), timeout=3.0)
                if exp and not rig.delivered:
                    rig.confirm_absent(lambda: len(rig.delivered) >= 1)
                got = list(rig.delivered)
                if exp is None:
                    if got:
                        ctx.violation("two-endpoints:incomplete-message-delivered", {"variant": variant, "delivered": len(got)})
                    continue
                h, body, _ = exp
                if len(got) != 1 or got[0]["body"] != body or got[0]["system"] != system or (got[0]["stream"], got[0]["function"]) != (h["stream"], h["function"]):
                    ctx.violation("two-endpoints:message-mixed-with-blocks-of-another-protocol-object",
                                  {"variant": variant, "delivered": len(got), "body_len_want": len(body),
                                   "body_len_got": [len(g["body"]) for g in got], "system": hex(system)})
        finally:
            r1.close()
            r2.close()


def run(ctx):
    import types

    import secsgem.secsi.header
    import secsgem.secsi.message

    S = types.SimpleNamespace(SecsIHeader=secsgem.secsi.header.SecsIHeader, SecsIMessage=secsgem.secsi.message.SecsIMessage,
                              SecsIBlock=secsgem.secsi.message.SecsIBlock)
    rng = ctx.rng
    lengths = [0, 1, 2, 243, 244, 245, 487, 488, 489, 731, 732, 733, 244 * 10 - 1, 244 * 10, 244 * 10 + 1, 244 * 255, 244 * 256 + 1]
    for i, n in enumerate(lengths):
        if ctx.mine(i):
            for _ in range(3):
                _split_case(ctx, _hdr(rng), rng.randbytes(n), S)
    for i in range(40 if ctx.quick else 6000):
        n = rng.choice([rng.randint(0, 1000), rng.randint(0, 65536), 244 * rng.randint(1, 60) + rng.choice([-1, 0, 1])])
        raws = _split_case(ctx, _hdr(rng), rng.randbytes(n), S)
        if i == 0 and raws is not None:
            ctx.sample({"body_len": n, "blocks": len(raws), "first_block": raws[0][:16]})
    if ctx.shard == 1 % ctx.nshards:
        _block_numbers(ctx, S)
        # a body that needs more than 2**11 blocks (block numbers use their upper bits)
        _split_case(ctx, _hdr(rng), rng.randbytes(2051 * 244 - 7), S)
    if not ctx.quick and ctx.shard == 0:
        n = 32767 * 244
        _split_case(ctx, _hdr(rng), rng.randbytes(n), S)
        ctx.count("boundary.max_blocks")
    _corruption(ctx, S)
    _reassembly(ctx, S, 12 if ctx.quick else 2500)
    _two_endpoints(ctx, 12 if ctx.quick else 400)
    _slow_sender(ctx, 3 if ctx.quick else 40)
