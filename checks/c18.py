"""C18 - the state-machine engine keeps one consistent current state under any transitions.

Monitors (spies on the public enter/leave/called events, StateMachine.current, State.active) compare the real
engine with a reference hierarchical machine: sequentially on random machines and on the three shipped machines
(every transition name from every reachable state), and concurrently (2-3 threads under seeded yield injection)
where the recorded history must be linearizable against the sequential model.
"""

from __future__ import annotations

import copy
import enum
import itertools
import threading

from lib import sched, stuck

PROPERTY = "C18"
LEVEL = "exploration"
RULE = ("random machines (2-8 states, forest depth <= 3, random transition tables, optional enter-handler-triggered nested "
        "transitions) and the three shipped machines; sequential: random transition-name sequences plus every name from "
        "every reachable state of the shipped machines; concurrent: 2-3 simultaneous triggers under seeded yield injection "
        "on state_machine.py/events.py; distinct by (machine spec, request sequence | schedule seed); non-trivial when at "
        "least one request was allowed; plus: 600-request histories with about 70% refused requests on one machine")
ASSUMPTIONS = ["re-entering a common ancestor (external-transition semantics) is accepted: common ancestors may fire nothing or "
               "one leave + one enter", "handler-triggered requests are made from the enter handler of the destination state",
               "interleavings are those produced by the injected yields; distinct ones are counted, not enumerated"]
LEVEL_TEXT = ("Runtime monitoring against a reference hierarchical state machine; sequential behaviour sampled over random "
              "machines and enumerated over the shipped machines' reachable (state, transition) pairs; concurrent histories "
              "checked for linearizability by brute force over the <= 3! orders.")
LEVEL_NOTE = "Schedules are sampled (seeded yield injection at statement boundaries), not enumerated."
TECHNIQUE = "runtime reference-model monitor + linearizability check of concurrent histories under yield injection"
SHARDS = {"quick": 8, "thorough": 16}
TIMEOUT = {"quick": 300, "thorough": 3000}
FLOORS = {"oracle.sequential_requests": 3000, "oracle.shipped_pairs": 60, "oracle.concurrent_rounds": 30,
          "concurrent.distinct_signatures": 30, "sequential.nested_transitions": 50, "oracle.concurrent_rounds_shipped": 30}


class Spec:
    """states: {name: parent|None}; transitions: {name: (sources, dest)}; triggers: {state: transition}; initial"""

    def __init__(self, states, transitions, triggers, initial, budget=3):
        self.states, self.transitions, self.triggers, self.initial, self.budget = states, transitions, triggers, initial, budget

    def anc(self, s):
        out = []
        while s is not None:
            out.append(s)
            s = self.states[s]
        return out


class Model:
    def __init__(self, spec, current=None):
        self.spec = spec
        self.current = current or spec.initial

    def request(self, name):
        """-> (outcome, performed) ; performed = list of (name, src, dst) in execution order."""
        spec = self.spec
        if name not in spec.transitions:
            return "unknown", []
        performed = []
        budget = spec.budget
        cur = self.current
        t = name
        first = True
        while True:
            sources, dst = spec.transitions[t]
            if cur not in sources:
                if first:
                    return "wrong", []
                break
            performed.append((t, cur, dst))
            cur = dst
            first = False
            nxt = spec.triggers.get(dst)
            if nxt is None or budget <= 0 or cur not in spec.transitions[nxt][0]:
                break
            budget -= 1
            t = nxt
        self.current = cur
        return "ok", performed

    def event_bounds(self, performed):
        """Per state (leave_lo, leave_hi, enter_lo, enter_hi) and called counts for a list of performed transitions."""
        spec = self.spec
        b = {s: [0, 0, 0, 0] for s in spec.states}
        called = {}
        for name, src, dst in performed:
            a_src, a_dst = spec.anc(src), spec.anc(dst)
            for s in a_src:
                if s in a_dst:
                    b[s][1] += 1
                    b[s][3] += 1          # common: nothing, or one leave + one enter
                else:
                    b[s][0] += 1
                    b[s][1] += 1
            for s in a_dst:
                if s not in a_src:
                    b[s][2] += 1
                    b[s][3] += 1
            called[name] = called.get(name, 0) + 1
        return b, called


def build_real(spec, seq_lock=None):
    """Build the real machine with the public State/Transition/StateMachine classes and attach spies."""
    import secsgem.common as C

    E = enum.Enum("E", {n: i for i, n in enumerate(spec.states)})
    objs = {}
    pending = dict(spec.states)
    while pending:
        for n, p in list(pending.items()):
            if p is None or p in objs:
                objs[n] = C.State(E[n], n, parent=objs[p] if p else None, initial=(n in spec.anc(spec.initial)))
                del pending[n]
    log = []
    loglock = threading.Lock()

    class M(C.StateMachine):
        def __init__(self):
            super().__init__()
            self._current_state = objs[spec.initial]
            self._transitions = [C.Transition(n, [objs[s] for s in srcs], objs[d]) for n, (srcs, d) in spec.transitions.items()]
            self.tl = threading.local()

        @property
        def budget(self):
            return getattr(self.tl, "budget", 0)

        @budget.setter
        def budget(self, value):
            self.tl.budget = value

        def fire(self, name):
            self._perform_transition(name)

        def request(self, name):
            """Top-level request: the handler-trigger budget is per request (thread-local)."""
            self.tl.budget = spec.budget
            self._perform_transition(name)

    m = M()
    for n, st in objs.items():
        st.events.enter.register(lambda d, n=n: _log(log, loglock, ("enter", n)))
        st.events.leave.register(lambda d, n=n: _log(log, loglock, ("leave", n)))
    for tr in m._transitions:
        tr.events.called.register(lambda d, n=tr.name: _log(log, loglock, ("called", n)))
    for state, tname in spec.triggers.items():
        def handler(_d, state=state, tname=tname):
            if m.current_state is objs[state] and m.budget > 0 and objs[state] in m.transition(tname).sources:
                m.budget -= 1
                m.fire(tname)
        objs[state].events.enter.register(handler)
    return m, objs, log


def _log(log, lock, item):
    with lock:
        log.append(item)


def random_spec(rng):
    n = rng.randint(2, 8)
    names = [f"s{i}" for i in range(n)]
    states = {}
    for i, nm in enumerate(names):
        cands = [p for p in names[:i] if len(_chain(states, p)) < 3]
        states[nm] = rng.choice(cands) if cands and rng.random() < 0.5 else None
    transitions = {}
    for j in range(rng.randint(1, 7)):
        srcs = rng.sample(names, rng.randint(1, min(3, n)))
        transitions[f"t{j}"] = (srcs, rng.choice(names))
    triggers = {}
    if rng.random() < 0.5:
        for _ in range(rng.randint(1, 2)):
            tname = rng.choice(list(transitions))
            srcs, _dst = transitions[tname]
            triggers[rng.choice(srcs)] = tname
    return Spec(states, transitions, triggers, rng.choice(names), budget=rng.choice([1, 2, 3]))


def _chain(states, s):
    out = []
    while s is not None:
        out.append(s)
        s = states[s]
    return out


# ------------------------------------------------------------------ hand-written specs of the shipped machines
def connection_spec():
    st = {"NOT_CONNECTED": None, "CONNECTED": None, "CONNECTED_NOT_SELECTED": "CONNECTED", "CONNECTED_SELECTED": "CONNECTED"}
    tr = {"connect": (["NOT_CONNECTED"], "CONNECTED_NOT_SELECTED"),
          "disconnect": (["CONNECTED_NOT_SELECTED", "CONNECTED_SELECTED"], "NOT_CONNECTED"),
          "select": (["CONNECTED_NOT_SELECTED"], "CONNECTED_SELECTED"),
          "deselect": (["CONNECTED_SELECTED"], "CONNECTED_NOT_SELECTED"),
          "timeoutT7": (["CONNECTED_NOT_SELECTED"], "NOT_CONNECTED")}
    return Spec(st, tr, {}, "NOT_CONNECTED")


def communication_spec():
    en = "ENABLED"
    st = {"DISABLED": None, en: None, "NOT_COMMUNICATING": en, "HOST_INITIATED_CONNECT": en, "WAIT_CR_FROM_HOST": en,
          "EQUIPMENT_INITIATED_CONNECT": en, "WAIT_DELAY": en, "WAIT_CRA": en, "COMMUNICATING": en}
    every = [s for s in st if s != "DISABLED"]
    tr = {"enable": (["DISABLED"], "NOT_COMMUNICATING"), "disable": (every, "DISABLED"),
          "select": (["NOT_COMMUNICATING"], "WAIT_CRA"), "communicationreqfail": (["WAIT_CRA"], "WAIT_DELAY"),
          "delayexpired": (["WAIT_DELAY"], "WAIT_CRA"), "messagereceived": (["WAIT_DELAY"], "WAIT_CRA"),
          "s1f14received": (["WAIT_CRA"], "COMMUNICATING"), "communicationfail": (["COMMUNICATING"], "NOT_COMMUNICATING"),
          "s1f13received": (["WAIT_CR_FROM_HOST", "WAIT_DELAY", "WAIT_CRA"], "COMMUNICATING")}
    return Spec(st, tr, {}, "DISABLED")


def control_spec(initial, online):
    st = {n: None for n in ["INIT", "CONTROL", "OFFLINE", "EQUIPMENT_OFFLINE", "ATTEMPT_ONLINE", "HOST_OFFLINE", "ONLINE",
                            "ONLINE_LOCAL", "ONLINE_REMOTE"]}
    on = ["ONLINE", "ONLINE_LOCAL", "ONLINE_REMOTE"]
    tr = {"start": (["INIT"], "CONTROL"), "initial_offline": (["CONTROL"], "OFFLINE"),
          "initial_equipment_offline": (["OFFLINE"], "EQUIPMENT_OFFLINE"), "initial_attempt_online": (["OFFLINE"], "ATTEMPT_ONLINE"),
          "initial_host_offline": (["OFFLINE"], "HOST_OFFLINE"), "switch_online": (["EQUIPMENT_OFFLINE"], "ATTEMPT_ONLINE"),
          "attempt_online_fail_equipment_offline": (["ATTEMPT_ONLINE"], "EQUIPMENT_OFFLINE"),
          "attempt_online_fail_host_offline": (["ATTEMPT_ONLINE"], "HOST_OFFLINE"),
          "attempt_online_success": (["ATTEMPT_ONLINE"], "ONLINE"), "switch_offline": (on + ["HOST_OFFLINE"], "EQUIPMENT_OFFLINE"),
          "initial_online": (["CONTROL"], "ONLINE"), "initial_online_local": (["ONLINE"], "ONLINE_LOCAL"),
          "initial_online_remote": (["ONLINE"], "ONLINE_REMOTE"), "switch_online_local": (["ONLINE_REMOTE"], "ONLINE_LOCAL"),
          "switch_online_remote": (["ONLINE_LOCAL"], "ONLINE_REMOTE"), "remote_offline": (on, "HOST_OFFLINE"),
          "remote_online": (["HOST_OFFLINE"], "ONLINE")}
    trig = {"CONTROL": "initial_online" if initial == "ONLINE" else "initial_offline",
            "ONLINE": "initial_online_remote" if online == "REMOTE" else "initial_online_local"}
    if initial != "ONLINE":
        trig["OFFLINE"] = {"EQUIPMENT_OFFLINE": "initial_equipment_offline", "ATTEMPT_ONLINE": "initial_attempt_online",
                           "HOST_OFFLINE": "initial_host_offline"}[initial]
    return Spec(st, tr, trig, "INIT", budget=99)


class Shipped:
    """Adapter giving a shipped machine the same observation interface as build_real()."""

    def __init__(self, machine, spec, remembered=None):
        self.m = machine
        self.spec = spec
        self.log = []
        self.lock = threading.Lock()
        self.objs = {}
        for attr in vars(machine).values():
            if type(attr).__name__ == "State":
                self.objs[attr.name] = attr
        for n, st in self.objs.items():
            st.events.enter.register(lambda d, n=n: _log(self.log, self.lock, ("enter", n)))
            st.events.leave.register(lambda d, n=n: _log(self.log, self.lock, ("leave", n)))
        for name in spec.transitions:
            machine.transition(name).events.called.register(lambda d, n=name: _log(self.log, self.lock, ("called", n)))

    def fire(self, name):
        fn = getattr(self.m, name, None)
        if callable(fn) and name not in ("transition",):
            fn()
        else:
            self.m._perform_transition(name)


def _observe(machine, objs):
    cur = machine.current_state.name
    active = sorted(n for n, s in objs.items() if s.active)
    return cur, active


def _check_request(ctx, spec, model, fire, machine, objs, log, name, label, wit_hist):
    """One sequential request; returns False when the real machine and the model disagree (stop this machine)."""
    import secsgem.common.state_machine as SM

    before_cur, before_active = _observe(machine, objs)
    n0 = len(log)
    outcome, performed = model.request(name)
    try:
        fire(name)
        real = "ok"
    except SM.WrongSourceStateError:
        real = "wrong"
    except SM.UnknownTransitionError:
        real = "unknown"
    except Exception as exc:
        real = f"raised:{type(exc).__name__}"
    events = log[n0:]
    cur, active = _observe(machine, objs)
    ctx.count("oracle.sequential_requests")
    if len(performed) > 1:
        ctx.count("sequential.nested_transitions")
    wit = {"machine": label, "states": spec.states, "transitions": {k: v for k, v in spec.transitions.items()},
           "triggers": spec.triggers, "history": wit_hist[-12:], "request": name, "state_before": before_cur,
           "model": [outcome, performed], "real_outcome": real, "events": events[:30], "current": cur, "active": active}
    if real != outcome:
        ctx.violation(f"outcome-differs:{label}:model-{outcome}:real-{real.split(':')[0]}", wit)
        return False
    if outcome != "ok":
        if events or cur != before_cur or active != before_active:
            ctx.violation(f"refused-request-changed-something:{label}", wit)
            return False
        return True
    if cur != model.current:
        ctx.violation(f"wrong-destination:{label}", wit)
        return False
    want_active = sorted(spec.anc(model.current))
    if active != want_active:
        ctx.violation(f"active-set-not-current-and-ancestors:{label}", {**wit, "want_active": want_active})
        return False
    bounds, called = model.event_bounds(performed)
    got = {s: [0, 0] for s in spec.states}
    gcalled = {}
    for kind, n in events:
        if kind == "called":
            gcalled[n] = gcalled.get(n, 0) + 1
        else:
            got[n][0 if kind == "leave" else 1] += 1
    if gcalled != called:
        ctx.violation(f"called-event-multiplicity:{label}", {**wit, "want_called": called, "got_called": gcalled})
        return False
    for s, (llo, lhi, elo, ehi) in bounds.items():
        lv, en = got[s]
        common_ok = (lv - llo) == (en - elo)   # optional leave+enter pairs of common ancestors come together
        if not (llo <= lv <= lhi and elo <= en <= ehi and common_ok):
            ctx.violation(f"enter-leave-multiplicity:{label}", {**wit, "state": s, "leave": lv, "enter": en, "bounds": [llo, lhi, elo, ehi]})
            return False
    return True


def _sequential_random(ctx, n_machines, n_requests, p_allowed=0.6):
    rng = ctx.rng
    for i in range(n_machines):
        spec = random_spec(rng)
        m, objs, log = build_real(spec)
        model = Model(spec)
        hist = []
        allowed = 0
        names = list(spec.transitions) + ["nope"]
        for _ in range(n_requests):
            # bias towards allowed requests so the walk moves
            ok_names = [t for t, (srcs, _) in spec.transitions.items() if model.current in srcs]
            name = rng.choice(ok_names) if ok_names and rng.random() < p_allowed else rng.choice(names)
            m.budget = spec.budget
            hist.append(name)
            if name in ok_names:
                allowed += 1
            if not _check_request(ctx, spec, model, m.fire, m, objs, log, name, "random", hist):
                break
        ctx.case(("seq", sorted(spec.states.items()), sorted((k, tuple(v[0]), v[1]) for k, v in spec.transitions.items()),
                  sorted(spec.triggers.items()), tuple(hist)), nontrivial=allowed > 0)
        ctx.maximum("hierarchy_depth", max(len(spec.anc(s)) for s in spec.states))
        if i == 0:
            ctx.sample({"states(parent)": spec.states, "transitions": spec.transitions, "triggers": spec.triggers, "requests": hist[:10]})


def _shipped_factories():
    import secsgem.gem.communication_state_machine as CM
    import secsgem.gem.control_state_machine as KM
    import secsgem.hsms
    import secsgem.hsms.connection_state_machine as XM

    out = [("connection", connection_spec(), lambda: XM.ConnectionStateMachine()),
           ("communication", communication_spec(), lambda: CM.CommunicationStateMachine(secsgem.hsms.HsmsSettings()))]
    for ini in ("EQUIPMENT_OFFLINE", "ATTEMPT_ONLINE", "HOST_OFFLINE", "ONLINE"):
        for onl in ("LOCAL", "REMOTE"):
            out.append((f"control[{ini},{onl}]", control_spec(ini, onl), lambda ini=ini, onl=onl: KM.ControlStateMachine(ini, onl)))
    return out


class ControlModel(Model):
    """Control machine: the ONLINE trigger follows the remembered LOCAL/REMOTE switch."""

    def request(self, name):
        out = super().request(name)
        if out[0] == "ok" and name in ("switch_online_local", "switch_online_remote"):
            self.spec.triggers["ONLINE"] = "initial_online_local" if name == "switch_online_local" else "initial_online_remote"
        return out


def _sequential_shipped(ctx):
    """Every transition name from every reachable state of the shipped machines (paths found on the model)."""
    rng = ctx.rng
    idx = 0
    for label, spec, factory in _shipped_factories():
        # BFS over model states -> shortest request paths
        paths = {spec.initial: []}
        frontier = [spec.initial]
        while frontier:
            nxt = []
            for s in frontier:
                for t in spec.transitions:
                    mdl = (ControlModel if label.startswith("control") else Model)(copy.deepcopy(spec), s)
                    # replay path to get remembered sub-state right
                    mdl = (ControlModel if label.startswith("control") else Model)(copy.deepcopy(spec))
                    for step in paths[s]:
                        mdl.request(step)
                    out, _ = mdl.request(t)
                    if out == "ok" and mdl.current not in paths:
                        paths[mdl.current] = paths[s] + [t]
                        nxt.append(mdl.current)
            frontier = nxt
        for state, path in sorted(paths.items()):
            for t in list(spec.transitions) + ["no_such_transition"]:
                idx += 1
                if not ctx.mine(idx):
                    continue
                real = factory()
                ship = Shipped(real, spec)
                sp = copy.deepcopy(spec)
                mdl = (ControlModel if label.startswith("control") else Model)(sp)
                ok = True
                hist = []
                for step in path + [t]:
                    hist.append(step)
                    if not _check_request(ctx, sp, mdl, ship.fire, real, ship.objs, ship.log, step, label.split("[")[0], hist):
                        ok = False
                        break
                ctx.case(("shipped", label, state, t))
                ctx.count("oracle.shipped_pairs")
                _cancel_timers(real)
    ctx.exhaustive["shipped_machines_reachable_state_x_transition"] = True


def _cancel_timers(machine):
    for attr in ("_wait_cra_timer", "_comm_delay_timer"):
        t = getattr(machine, attr, None)
        if t is not None:
            t.cancel()


def _where(thread):
    import sys
    import traceback

    frame = sys._current_frames().get(thread.ident)
    return [f"{fs.filename.split('/')[-1]}:{fs.lineno} {fs.name}" for fs in traceback.extract_stack(frame)[-6:]] if frame is not None else []


def _stationary(threads, samples=6, span=3.0):
    """Every given thread shows the same stack (same statements) in all samples taken over `span` seconds."""
    import time

    first = {t.ident: _where(t) for t in threads}
    for _ in range(samples - 1):
        time.sleep(span / (samples - 1))
        for t in threads:
            if not t.is_alive() or _where(t) != first[t.ident]:
                return False
    return True


def _concurrent(ctx, rounds):
    rng = ctx.rng
    inj = sched.YieldInjector(["secsgem/common/state_machine.py", "secsgem/common/events.py"])
    inj.install()
    sigs = set()
    try:
        for r in range(rounds):
            # a machine with at least two transitions allowed from one state
            for _ in range(50):
                spec = random_spec(rng)
                spec.triggers = {} if rng.random() < 0.7 else spec.triggers
                cands = [s for s in spec.states if sum(1 for t, (srcs, _) in spec.transitions.items() if s in srcs) >= 2]
                if cands:
                    break
            else:
                continue
            start = rng.choice(cands)
            spec.initial = start
            k = rng.choice([2, 2, 3])
            allowed = [t for t, (srcs, _) in spec.transitions.items() if start in srcs]
            reqs = [rng.choice(allowed if rng.random() < 0.8 else list(spec.transitions)) for _ in range(k)]
            m, objs, log = build_real(spec)
            m.budget = spec.budget
            results = [None] * k
            barrier = threading.Barrier(k)
            import secsgem.common.state_machine as SM

            def worker(i):
                stuck.register_harness_thread()
                inj.add_participant()
                barrier.wait()
                try:
                    m.request(reqs[i])
                    results[i] = "ok"
                except SM.WrongSourceStateError:
                    results[i] = "wrong"
                except SM.UnknownTransitionError:
                    results[i] = "unknown"
                except Exception as exc:
                    results[i] = f"raised:{type(exc).__name__}"
            seed = rng.getrandbits(32)
            inj.begin(seed, p=rng.choice([0.15, 0.3, 0.5]), participants=set())
            ths = [threading.Thread(target=worker, args=(i,), daemon=True) for i in range(k)]
            for t in ths:
                t.start()
            for t in ths:
                t.join(20)
            sig, yields, events = inj.end()
            if any(t.is_alive() for t in ths):
                if _stationary([t for t in ths if t.is_alive()]):
                    # the engine does no I/O and waits for nobody but its own lock: a request that sits on one statement for
                    # seconds, 20 s after it was made, waits for a lock that nobody is going to release
                    ctx.violation("request-never-returns", {
                        "states": spec.states, "transitions": spec.transitions, "start": start, "requests": reqs, "results": results,
                        "schedule_seed": seed, "stacks": {t.name: _where(t) for t in ths if t.is_alive()}})
                    return
                ctx.unsure("concurrent round did not finish in 20 s")
                continue
            sigs.add(sig)
            ctx.count("oracle.concurrent_rounds")
            ctx.count("concurrent.yields_injected", yields)
            ctx.case(("conc", sig, tuple(reqs)), nontrivial=True)
            cur, active = _observe(m, objs)
            got = {s: [0, 0] for s in spec.states}
            gcalled = {}
            for kind, n in list(log):
                if kind == "called":
                    gcalled[n] = gcalled.get(n, 0) + 1
                else:
                    got[n][0 if kind == "leave" else 1] += 1
            explained = None
            reasons = []
            for perm in itertools.permutations(range(k)):
                mdl = Model(copy.deepcopy(spec), start)
                performed_all = []
                outs = [None] * k
                for i in perm:
                    mdl.spec.budget = spec.budget
                    outs[i], perf = mdl.request(reqs[i])
                    performed_all += perf
                if outs != results:
                    reasons.append(f"order {perm}: outcomes {outs}")
                    continue
                if mdl.current != cur:
                    reasons.append(f"order {perm}: final {mdl.current}")
                    continue
                bounds, called = mdl.event_bounds(performed_all)
                if called != gcalled:
                    reasons.append(f"order {perm}: called {called}")
                    continue
                okb = all(b[0] <= got[s][0] <= b[1] and b[2] <= got[s][1] <= b[3] and (got[s][0] - b[0]) == (got[s][1] - b[2])
                          for s, b in bounds.items())
                if not okb:
                    reasons.append(f"order {perm}: event counts")
                    continue
                explained = perm
                break
            wit = {"states": spec.states, "transitions": spec.transitions, "triggers": spec.triggers, "start": start, "requests": reqs,
                   "results": results, "final_current": cur, "active": active, "events": list(log)[:40], "schedule_seed": seed,
                   "why_no_order_explains": reasons[:6]}
            if explained is None:
                ctx.violation("concurrent-history-not-linearizable", wit)
            elif active != sorted(spec.anc(cur)):
                ctx.violation("concurrent-active-set-inconsistent", wit)
        ctx.count("concurrent.distinct_signatures", len(sigs))
    finally:
        inj.uninstall()


def _concurrent_shipped(ctx, rounds):
    """Concurrent triggers on the three shipped machines (timer thread vs dispatcher thread vs operator)."""
    import secsgem.common.state_machine as SM

    rng = ctx.rng
    inj = sched.YieldInjector(["secsgem/common/state_machine.py", "secsgem/common/events.py", "secsgem/gem/control_state_machine.py",
                               "secsgem/gem/communication_state_machine.py", "secsgem/hsms/connection_state_machine.py"])
    inj.install()
    factories = _shipped_factories()
    # reachable states and paths, per machine (model only)
    table = []
    for label, spec, factory in factories:
        mk = ControlModel if label.startswith("control") else Model
        paths = {spec.initial: []}
        frontier = [spec.initial]
        while frontier:
            nxt = []
            for st in frontier:
                for t in spec.transitions:
                    mdl = mk(copy.deepcopy(spec))
                    for step in paths[st]:
                        mdl.request(step)
                    out, _ = mdl.request(t)
                    if out == "ok" and mdl.current not in paths:
                        paths[mdl.current] = paths[st] + [t]
                        nxt.append(mdl.current)
            frontier = nxt
        for st, path in paths.items():
            allowed = [t for t, (srcs, _) in spec.transitions.items() if st in srcs]
            if len(allowed) >= 2:
                table.append((label, spec, factory, mk, st, path, allowed))
    try:
        for r in range(rounds):
            label, spec, factory, mk, st, path, allowed = rng.choice(table)
            real = factory()
            ship = Shipped(real, spec)
            for step in path:
                ship.fire(step)
            k = rng.choice([2, 2, 3])
            reqs = [rng.choice(allowed) for _ in range(k)]
            results = [None] * k
            barrier = threading.Barrier(k)

            def worker(i):
                stuck.register_harness_thread()
                inj.add_participant()
                barrier.wait()
                try:
                    ship.fire(reqs[i])
                    results[i] = "ok"
                except SM.WrongSourceStateError:
                    results[i] = "wrong"
                except SM.UnknownTransitionError:
                    results[i] = "unknown"
                except Exception as exc:
                    results[i] = f"raised:{type(exc).__name__}"
            seed = rng.getrandbits(32)
            inj.begin(seed, p=rng.choice([0.15, 0.3, 0.5]), participants=set())
            ths = [threading.Thread(target=worker, args=(i,), daemon=True) for i in range(k)]
            for t in ths:
                t.start()
            for t in ths:
                t.join(20)
            sig, yields, _ = inj.end()
            _cancel_timers(real)
            if any(t.is_alive() for t in ths):
                if _stationary([t for t in ths if t.is_alive()]):
                    ctx.violation("request-never-returns", {"machine": label, "state": st, "requests": reqs, "results": results,
                                                            "schedule_seed": seed, "stacks": {t.name: _where(t) for t in ths if t.is_alive()}})
                    return
                ctx.unsure("concurrent shipped-machine round did not finish in 20 s")
                continue
            ctx.count("oracle.concurrent_rounds_shipped")
            ctx.case(("conc-shipped", label, st, tuple(reqs), sig), nontrivial=True)
            cur, active = _observe(real, ship.objs)
            explained = False
            for perm in itertools.permutations(range(k)):
                mdl = mk(copy.deepcopy(spec))
                for step in path:
                    mdl.request(step)
                outs = [None] * k
                for i in perm:
                    outs[i], _ = mdl.request(reqs[i])
                if outs == results and mdl.current == cur:
                    explained = True
                    break
            wit = {"machine": label, "start": st, "requests": reqs, "results": results, "final_current": cur, "active": active,
                   "schedule_seed": seed}
            if not explained:
                ctx.violation(f"concurrent-history-not-linearizable:{label.split('[')[0]}", wit)
            elif active != sorted(spec.anc(cur)):
                ctx.violation(f"concurrent-active-set-inconsistent:{label.split('[')[0]}", wit)
    finally:
        inj.uninstall()


def run(ctx):
    from lib import vtime
    vtime.install()
    _sequential_random(ctx, 150 if ctx.quick else 15000, 25)
    # long lives: hundreds of requests on one machine, a majority of them refused (anything a refusal leaves behind adds up)
    _sequential_random(ctx, 6 if ctx.quick else 300, 600, p_allowed=0.3)
    ctx.count("long_histories_with_hundreds_of_refusals", 6 if ctx.quick else 300)
    _sequential_shipped(ctx)
    _concurrent(ctx, 40 if ctx.quick else 5000)
    _concurrent_shipped(ctx, 25 if ctx.quick else 3000)
