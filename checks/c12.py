"""C12 - event-report configuration stays consistent and transactional under any history.

A real GemEquipmentHandler (COMMUNICATING, over the in-memory connection) receives random histories of S2F33
(define / delete report), S2F35 (link), S2F37 (enable), S6F15 and local triggers over small id domains. A
reference model of the E5 configuration predicts the acknowledge class and the exact effect of every
unambiguous request; ambiguous ones (duplicates inside one message, appending links, unknown mixed with known
ids) are only required to be refused-without-effect or to leave a consistent configuration, after which the
model is resynchronised from the public tables. After every step hard invariants are probed: every linked
report exists; S6F15 of every event answers S6F16 (never S6F0) with the linked reports in link order and the
current variable values; a trigger of an enabled event sends exactly one such S6F11; no thread dies.
"""

from __future__ import annotations

import copy
import itertools
import threading

from lib import e5ref, gen, vtime, wire

PROPERTY = "C12"
LEVEL = "exploration"
RULE = ("random histories (<= 20 steps, thorough <= 60) over S2F33 / S2F35 / S2F37 / S6F15 / trigger / value update with RPTID in "
        "{1,2,3,'r'}, CEID in {1,2,3,20,999(unknown)}, VID in {1002,10,30,11,31 (11 and 31 supplied by the application's value-request hooks),77(unknown)}, including duplicates inside one "
        "request, deletion of linked reports, unknown ids, empty lists, mixed define+delete and multi-entry requests with the "
        "offending entry first, in the middle or last; distinct by request sequence; "
        "non-trivial when at least one define and one link were accepted; plus: the cycle define / link / enable / request, delete-all, define the same RPTID with other variables, link, enable, request")
ASSUMPTIONS = ["where E5 leaves a choice (same RPTID twice in one S2F33, linking further reports to an already linked CEID, the "
               "same report twice in one link request, S2F37 with known and unknown CEIDs, enabling an event without links, "
               "deleting an undefined report) only 'refused without effect' or 'accepted leaving a consistent configuration' "
               "is demanded and the model is resynchronised from the public tables",
               "for a linked but disabled event S6F15 may return the reports or an empty list",
               "the enable state of a freshly linked event is not constrained"]
LEVEL_TEXT = ("Runtime monitoring of the real capability handlers against an E5 configuration model plus hard invariants "
              "probed after every step of sampled histories.")
LEVEL_NOTE = "Histories sampled over small id domains."
TECHNIQUE = "runtime reference-model monitor + invariant probes (S6F15 / trigger) after every step of generated histories"
SHARDS = {"quick": 8, "thorough": 16}
TIMEOUT = {"quick": 400, "thorough": 3400}
FLOORS = {"request.define.accepted": 20, "request.define.refused": 20, "request.delete_one.accepted": 10, "request.delete_all": 5,
          "request.link.accepted": 20, "request.link.refused": 20, "request.unlink": 5, "request.enable": 20, "probe.s6f15": 500,
          "probe.trigger": 40, "request.ambiguous": 20}

RPTIDS = [1, 2, 3, "r"]
CEIDS = [1, 2, 3, 20]
UNKNOWN_CEID = 999
VIDS = [1002, 10, 30, 11, 31]
UNKNOWN_VID = 77


def idt(x):
    return ("A", x.encode()) if isinstance(x, str) else ("U4", [x])


def un(tree):
    """Plain id from an id item tree."""
    fmt, val = tree
    if fmt in ("A", "J"):
        return bytes(val).decode("latin-1")
    if fmt == "B":
        return val[0] if len(val) == 1 else bytes(val)
    return val[0] if len(val) == 1 else list(val)


class Model:
    def __init__(self):
        self.reports = {}    # rptid -> [vids]
        self.links = {}      # ceid -> [rptids]
        self.enabled = {}    # ceid -> bool (only for linked ceids)


def norm_tables(h):
    def plain(k):
        return k.get() if hasattr(k, "get") else k
    reports = {}
    for k, rep in h.registered_reports.items():
        vs = rep.vars
        vs = vs.get() if hasattr(vs, "get") else vs
        reports[plain(k)] = [plain(v) for v in vs]
    links, enabled = {}, {}
    for k, link in h.registered_collection_events.items():
        links[plain(k)] = [plain(r) for r in link.reports]
        enabled[plain(k)] = bool(link.enabled)
    return reports, links, enabled


class Run:
    def __init__(self, ctx):
        import secsgem.secs.variables as V
        from lib.gemrig import GemRig
        from secsgem.gem import DataValue, StatusVariable

        self.ctx = ctx
        self.rig = GemRig(role="equipment", t3=2.0)
        self.ok = self.rig.establish()
        self.h = self.rig.handler
        self.sv = StatusVariable(10, "sv10", "u", V.U4, use_callback=False)
        self.sv.value = 5
        self.dv = DataValue(30, "dv30", V.String, use_callback=False)
        self.dv.value = "a"
        self.h.status_variables[10] = self.sv
        self.h.data_values[30] = self.dv
        # variables whose current value the application supplies through the overridable request hooks (what a subclass of the
        # equipment handler does): the objects' own `.value` is a stale placeholder, the store below is the truth
        self.store = {11: 7, 31: 70}
        sv11 = StatusVariable(11, "sv11", "u", V.U4, use_callback=True)
        sv11.value = 4040404
        dv31 = DataValue(31, "dv31", V.U4, use_callback=True)
        dv31.value = 3131313
        self.h.status_variables[11] = sv11
        self.h.data_values[31] = dv31
        orig_sv, orig_dv = self.h.on_sv_value_request, self.h.on_dv_value_request
        store = self.store

        def on_sv_value_request(svid, status_variable):
            if status_variable.svid == 11:
                return V.U4(store[11])
            return orig_sv(svid, status_variable)

        def on_dv_value_request(dvid, data_value):
            if data_value.dvid == 31:
                return V.U4(store[31])
            return orig_dv(dvid, data_value)
        self.h.on_sv_value_request = on_sv_value_request
        self.h.on_dv_value_request = on_dv_value_request
        self.m = Model()
        self.hist = []
        self.sysgen = gen.system_bytes(ctx.rng, 0x30000000 + ctx.rng.randrange(1 << 16) * 512, p=0.03)
        self.bad = False
        self.accepted = {"define": 0, "link": 0}

    def wit(self, **kw):
        r, l, e = norm_tables(self.h)
        return {"history": self.hist[-14:], "model": {"reports": self.m.reports, "links": self.m.links, "enabled": self.m.enabled},
                "tables": {"reports": r, "links": l, "enabled": e}, **kw}

    def violation(self, mech, **kw):
        self.ctx.violation(mech, self.wit(**kw))
        self.bad = True

    def request(self, s, f, body):
        """Send a primary with W-bit, return the reply frame (or None)."""
        system = next(self.sysgen)
        n0 = self.rig.n_frames()
        self.rig.inject(s, f, True, body, system)
        self.rig.wait(lambda: any(fr.system == system for _, fr in self.rig.data_frames(n0)), 3.0)
        got = [fr for _, fr in self.rig.data_frames(n0) if fr.system == system]
        if len(got) != 1:
            if not got:
                self.rig.confirm_absent(lambda: any(fr.system == system for _, fr in self.rig.data_frames(n0)), 0.4)
                got = [fr for _, fr in self.rig.data_frames(n0) if fr.system == system]
            if len(got) != 1:
                self.violation(f"S{s}F{f}-not-answered-once", replies=[g.describe() for g in got])
                return None
        return got[0]

    def ack(self, frame, s, f):
        if frame is None:
            return None
        if (frame.stream, frame.function) != (s, f):
            self.violation(f"S{s}F{f - 1}-answered-with-S{frame.stream}F{frame.function}", body=frame.body[:30])
            return None
        try:
            return e5ref.decode_all(frame.body)[1][0]
        except Exception:
            self.violation(f"S{s}F{f}-body-undecodable", body=frame.body[:30])
            return None

    # ------------------------------------------------------------------ expected variable values
    def value_tree(self, vid):
        if vid == 1002:
            return ("B", bytes([{"EQUIPMENT_OFFLINE": 1, "ATTEMPT_ONLINE": 2,
                    "HOST_OFFLINE": 3, "ONLINE_LOCAL": 4, "ONLINE_REMOTE": 5}.get(self.h.control_state.current.name, 255)]))
        if vid == 10:
            return ("U4", [self.sv.value])
        if vid == 30:
            return ("A", self.dv.value.encode())
        if vid in (11, 31):
            return ("U4", [self.store[vid]])
        raise KeyError(vid)

    def expected_reports(self, ceid):
        return [(r, [self.value_tree(v) for v in self.m.reports[r]]) for r in self.m.links.get(ceid, [])]

    def parse_event_body(self, body):
        """S6F11 / S6F16 body -> (ceid, [(rptid, [value trees])])"""
        t = e5ref.decode_all(body)
        assert t[0] == "L" and len(t[1]) == 3
        ceid = un(t[1][1])
        reps = []
        for rep in t[1][2][1]:
            reps.append((un(rep[1][0]), list(rep[1][1][1])))
        return ceid, reps

    # ------------------------------------------------------------------ invariants / probes
    def check_tables_against_model(self, where):
        r, l, e = norm_tables(self.h)
        l2 = {k: v for k, v in l.items() if v}
        m_l = {k: v for k, v in self.m.links.items() if v}
        if r != self.m.reports or l2 != m_l:
            self.violation(f"effect-differs-from-E5:{where}")
            return False
        for k in m_l:
            if k in self.m.enabled and e.get(k) != self.m.enabled[k]:
                self.violation(f"enable-state-differs:{where}")
                return False
        return True

    def resync(self):
        r, l, e = norm_tables(self.h)
        self.m.reports = copy.deepcopy(r)
        self.m.links = {k: list(v) for k, v in l.items() if v}
        self.m.enabled = {k: e[k] for k in self.m.links}

    def invariants(self, where):
        r, l, e = norm_tables(self.h)
        for ceid, reps in l.items():
            for rp in reps:
                if rp not in r:
                    self.violation("dangling-link:linked-report-does-not-exist", ceid=ceid, rptid=rp, after=where)
                    return
        for ceid in CEIDS:
            if self.bad:
                return
            self.ctx.count("probe.s6f15")
            fr = self.request(6, 15, e5ref.encode(idt(ceid)))
            if fr is None:
                return
            if (fr.stream, fr.function) != (6, 16):
                self.violation("S6F15-not-answered-with-S6F16", ceid=ceid, reply=fr.describe(), after=where)
                return
            try:
                got_ceid, got = self.parse_event_body(fr.body)
            except Exception as exc:
                self.violation("S6F16-malformed", ceid=ceid, body=fr.body[:60], error=repr(exc))
                return
            want = self.expected_reports(ceid)
            enabled = self.m.enabled.get(ceid, False)
            same = got_ceid == ceid and len(got) == len(want) and all(
                g[0] == w[0] and len(g[1]) == len(w[1]) and all(e5ref.tree_equal(a, b) for a, b in zip(g[1], w[1])) for g, w in zip(got, want))
            if not same and not (not enabled and got == [] and got_ceid == ceid):
                self.violation("S6F16-content-differs-from-linked-reports", ceid=ceid, got=[(g[0], [e5ref.encode(v).hex() for v in g[1]]) for g in got],
                               want=[(w[0], [e5ref.encode(v).hex() for v in w[1]]) for w in want], enabled=enabled, after=where)
                return

    def probe_trigger(self, ceid):
        self.ctx.count("probe.trigger")
        self.hist.append(f"trigger({ceid})")
        n0 = len(self.rig.own_primaries)
        exc0 = len(THREAD_ERRORS)
        self.h.trigger_collection_events([ceid])
        linked = bool(self.m.links.get(ceid))
        enabled = self.m.enabled.get(ceid, False)
        expect = 1 if linked and enabled else 0
        self.rig.wait(lambda: len([1 for _, f in self.rig.own_primaries[n0:] if (f.stream, f.function) == (6, 11)]) >= max(1, expect) or len(THREAD_ERRORS) > exc0, 2.0)
        self.rig.quiesce(1.0)
        if len(THREAD_ERRORS) > exc0:
            self.violation("trigger-thread-died", ceid=ceid, error=THREAD_ERRORS[-1])
            return
        evs = [f for _, f in self.rig.own_primaries[n0:] if (f.stream, f.function) == (6, 11)]
        if len(evs) != expect:
            if expect and not evs:
                self.rig.confirm_absent(lambda: any((f.stream, f.function) == (6, 11) for _, f in self.rig.own_primaries[n0:]), 0.4)
                evs = [f for _, f in self.rig.own_primaries[n0:] if (f.stream, f.function) == (6, 11)]
            if len(evs) != expect:
                self.violation(f"trigger-sent-{len(evs)}-S6F11-expected-{expect}", ceid=ceid, linked=linked, enabled=enabled)
                return
        if expect:
            try:
                got_ceid, got = self.parse_event_body(evs[0].body)
            except Exception as exc:
                self.violation("S6F11-malformed", ceid=ceid, body=evs[0].body[:60], error=repr(exc))
                return
            want = self.expected_reports(ceid)
            same = got_ceid == ceid and len(got) == len(want) and all(
                g[0] == w[0] and len(g[1]) == len(w[1]) and all(e5ref.tree_equal(a, b) for a, b in zip(g[1], w[1])) for g, w in zip(got, want))
            if not same:
                self.violation("S6F11-content-differs-from-linked-reports", ceid=ceid)

    # ------------------------------------------------------------------ requests
    def do_s2f33(self):
        rng = self.ctx.rng
        m = self.m
        kind = rng.choice(["define", "define", "define", "redefine", "unknown_vid", "delete_one", "delete_one", "delete_undefined",
                           "delete_all", "multi_ok", "multi_bad", "dup_in_message", "define_and_delete", "delete_and_bad_define"])
        entries = []
        free = [r for r in RPTIDS if r not in m.reports]
        have = list(m.reports)
        vids = lambda: [rng.choice(VIDS) for _ in range(rng.randint(1, 3))]
        if kind == "define" and free:
            entries = [(rng.choice(free), vids())]
        elif kind == "redefine" and have:
            entries = [(rng.choice(have), vids())]
        elif kind == "unknown_vid":
            entries = [(rng.choice(free or RPTIDS), vids() + [UNKNOWN_VID])]
            if entries[0][0] in m.reports:
                kind = "redefine"
        elif kind == "delete_one" and have:
            entries = [(rng.choice(have), [])]
        elif kind == "delete_undefined" and free:
            entries = [(rng.choice(free), [])]
        elif kind == "delete_all":
            entries = []
        elif kind == "multi_ok" and len(free) >= 2:
            entries = [(r, vids()) for r in rng.sample(free, 2)]
        elif kind == "multi_bad" and free:
            entries = [(free[0], vids()), (rng.choice(have), vids()) if have and rng.random() < 0.5 else (free[-1] if len(free) > 1 else "zz", [UNKNOWN_VID])]
            if entries[0][0] == entries[1][0]:
                kind = "dup_in_message"
            else:
                # the offending entry first, in the middle or last
                more = [r for r in free[1:-1] if r != entries[1][0]][:1]
                entries += [(r, vids()) for r in more]
                rng.shuffle(entries)
                self.ctx.count("request.multi_bad.position_of_bad_entry." + str(next(i for i, (r, vs) in enumerate(entries) if UNKNOWN_VID in vs or r in m.reports)))
        elif kind == "dup_in_message" and free:
            r = rng.choice(free)
            entries = [(r, vids()), (r, vids())]
        elif kind == "define_and_delete" and have and free:
            entries = [(rng.choice(free), vids()), (rng.choice(have), [])]
        elif kind == "delete_and_bad_define" and have:
            # a deletion next to a definition that must be refused: the whole request is refused, nothing is deleted
            victim = rng.choice(have)
            bad = (rng.choice(free), vids() + [UNKNOWN_VID]) if free and rng.random() < 0.6 else \
                (rng.choice([r for r in have if r != victim] or [victim]), vids())
            if bad[0] == victim:
                return
            entries = [(victim, []), bad]
            rng.shuffle(entries)
            self.ctx.count("request.delete_next_to_a_refused_definition")
        else:
            return
        body = e5ref.encode(("L", [("U4", [1]), ("L", [("L", [idt(r), ("L", [idt(v) for v in vs])]) for r, vs in entries])]))
        self.hist.append(f"S2F33[{kind}]{entries}")
        before = norm_tables(self.h)
        ack = self.ack(self.request(2, 33, body), 2, 34)
        if ack is None:
            return
        after = norm_tables(self.h)
        if ack != 0 and after != before:
            self.violation("refused-S2F33-changed-the-configuration", ack=ack)
            return
        # predicted outcome
        if kind in ("dup_in_message",):
            self.ctx.count("request.ambiguous")
            self.resync()
            return
        if kind == "delete_undefined":
            self.ctx.count("request.ambiguous")
            if after != before:
                self.violation("deleting-an-undefined-report-changed-the-configuration", ack=ack)
            return
        err = False
        nm = copy.deepcopy(m)
        if kind == "delete_all":
            nm.reports, nm.links, nm.enabled = {}, {}, {}
        for r, vs in entries:
            if vs:
                if r in m.reports or any(v == UNKNOWN_VID for v in vs):
                    err = True
                else:
                    nm.reports[r] = list(vs)
            else:
                if r in nm.reports:
                    del nm.reports[r]
                for c in list(nm.links):
                    nm.links[c] = [x for x in nm.links[c] if x != r]
                    if not nm.links[c]:
                        del nm.links[c]
                        nm.enabled.pop(c, None)
        label = {"delete_one": "delete_one", "delete_all": "delete_all"}.get(kind, "define")
        if err:
            self.ctx.count("request.define.refused")
            if ack == 0:
                self.violation(f"invalid-S2F33-accepted:{kind}", ack=ack)
            return
        if ack != 0:
            self.violation(f"valid-S2F33-refused:{kind}", ack=ack)
            return
        self.ctx.count("request.delete_all" if kind == "delete_all" else f"request.{label}.accepted")
        self.accepted["define"] += 1 if label == "define" else 0
        self.m = nm
        self.check_tables_against_model(f"S2F33:{kind}")

    def do_s2f35(self):
        rng = self.ctx.rng
        m = self.m
        kind = rng.choice(["link", "link", "link", "unknown_ceid", "undefined_report", "undefined_report", "already_linked", "unlink", "append",
                           "dup_report", "dup_ceid", "multi_ok", "multi_bad", "multi_bad"])
        have = list(m.reports)
        unlinked = [c for c in CEIDS if not m.links.get(c)]
        linked = [c for c in CEIDS if m.links.get(c)]
        entries = []
        if kind == "link" and have and unlinked:
            entries = [(rng.choice(unlinked), rng.sample(have, rng.randint(1, len(have))))]
        elif kind == "unknown_ceid":
            entries = [(UNKNOWN_CEID, rng.sample(have, 1) if have and rng.random() < 0.7 else [])]
        elif kind == "undefined_report":
            undefined = [r for r in RPTIDS if r not in m.reports]
            if not undefined:
                return
            # also for an event that already has links: an undefined report must be refused whatever else is in the request
            target = rng.choice(CEIDS)
            extra = [r for r in have if r not in m.links.get(target, [])]
            entries = [(target, ([rng.choice(extra)] if extra and rng.random() < 0.5 else []) + [rng.choice(undefined)])]
            rng.shuffle(entries[0][1])
        elif kind == "already_linked" and linked:
            c = rng.choice(linked)
            entries = [(c, [rng.choice(m.links[c])])]
        elif kind == "unlink":
            entries = [(rng.choice(CEIDS), [])]
        elif kind == "append" and linked:
            c = rng.choice(linked)
            rest = [r for r in have if r not in m.links[c]]
            if not rest:
                return
            entries = [(c, [rng.choice(rest)])]
        elif kind == "dup_report" and have and unlinked:
            r = rng.choice(have)
            entries = [(rng.choice(unlinked), [r, r])]
        elif kind == "dup_ceid" and len(have) >= 2 and unlinked:
            c = rng.choice(unlinked)
            a, b = rng.sample(have, 2)
            entries = [(c, [a]), (c, [b])]
        elif kind == "multi_ok" and have and len(unlinked) >= 2:
            entries = [(c, rng.sample(have, 1)) for c in rng.sample(unlinked, 2)]
        elif kind == "multi_bad" and have and len(unlinked) >= 2:
            # one or two acceptable entries and one that must be refused, in any position
            good = [(c, rng.sample(have, 1)) for c in rng.sample(unlinked, rng.choice([1, 2]))]
            rest = [c for c in unlinked if c not in [g[0] for g in good]]
            undefined = [r for r in RPTIDS if r not in m.reports]
            if undefined and rest and rng.random() < 0.5:
                bad = (rest[0], [rng.choice(undefined)])
            else:
                bad = (UNKNOWN_CEID, rng.sample(have, 1))
            entries = good + [bad]
            rng.shuffle(entries)
            self.ctx.count("request.link.multi_bad.position_of_bad_entry." + str(entries.index(bad)))
        else:
            return
        body = e5ref.encode(("L", [("U4", [1]), ("L", [("L", [idt(c), ("L", [idt(r) for r in rs])]) for c, rs in entries])]))
        self.hist.append(f"S2F35[{kind}]{entries}")
        before = norm_tables(self.h)
        ack = self.ack(self.request(2, 35, body), 2, 36)
        if ack is None:
            return
        after = norm_tables(self.h)
        if ack != 0 and after != before:
            self.violation("refused-S2F35-changed-the-configuration", ack=ack)
            return
        if kind in ("dup_report", "dup_ceid"):
            self.ctx.count("request.ambiguous")
            self.resync()
            return
        if kind == "append":
            self.ctx.count("request.ambiguous")
            if ack == 0:
                c, rs = entries[0]
                self.m.links[c] = self.m.links[c] + rs
                self.check_tables_against_model("S2F35:append")
            return
        err = False
        nm = copy.deepcopy(m)
        for c, rs in entries:
            if c == UNKNOWN_CEID:
                err = True
                continue
            if not rs:
                nm.links.pop(c, None)
                nm.enabled.pop(c, None)
                continue
            if any(r not in m.reports for r in rs) or any(r in m.links.get(c, []) for r in rs):
                err = True
                continue
            nm.links[c] = list(rs)
            nm.enabled.pop(c, None)      # enable state of a fresh link is taken from the tables below
        if err:
            self.ctx.count("request.link.refused")
            if ack == 0:
                self.violation(f"invalid-S2F35-accepted:{kind}", ack=ack)
            return
        if ack != 0:
            self.violation(f"valid-S2F35-refused:{kind}", ack=ack)
            return
        self.ctx.count("request.unlink" if kind == "unlink" else "request.link.accepted")
        self.accepted["link"] += 1 if kind != "unlink" else 0
        self.m = nm
        if self.check_tables_against_model(f"S2F35:{kind}"):
            _, _, e = norm_tables(self.h)
            for c in self.m.links:
                if c not in self.m.enabled:
                    self.m.enabled[c] = e.get(c, False)

    def do_s2f37(self):
        rng = self.ctx.rng
        m = self.m
        ceed = rng.random() < 0.7
        linked = list(m.links)
        kind = rng.choice(["all", "some", "some", "unknown", "unlinked"])
        if kind == "all":
            ceids = []
        elif kind == "some" and linked:
            ceids = rng.sample(linked, rng.randint(1, len(linked)))
        elif kind == "unknown":
            ceids = ([rng.choice(linked)] if linked else []) + [UNKNOWN_CEID]
        elif kind == "unlinked":
            free = [c for c in CEIDS if c not in m.links]
            if not free:
                return
            ceids = [rng.choice(free)]
        else:
            return
        body = e5ref.encode(("L", [("BOOLEAN", [ceed]), ("L", [idt(c) for c in ceids])]))
        self.hist.append(f"S2F37[{kind}] CEED={ceed} {ceids}")
        ack = self.ack(self.request(2, 37, body), 2, 38)
        if ack is None:
            return
        self.ctx.count("request.enable")
        r, l, e = norm_tables(self.h)
        if kind in ("all", "some"):
            if ack != 0:
                self.violation(f"valid-S2F37-refused:{kind}", ack=ack)
                return
            for c in (linked if kind == "all" else ceids):
                m.enabled[c] = ceed
            self.check_tables_against_model(f"S2F37:{kind}")
        else:
            self.ctx.count("request.ambiguous")
            if kind == "unknown" and ack == 0:
                self.violation("S2F37-with-unknown-CEID-accepted", ack=ack)
                return
            # apply none or apply the known ones: enabled flags may have changed only for the named known ceids, towards CEED
            for c in m.links:
                if e.get(c) != m.enabled.get(c) and not (c in ceids and e.get(c) == ceed):
                    self.violation("S2F37-changed-an-event-that-was-not-named", ceid=c)
                    return
            if r != m.reports or {k: v for k, v in l.items() if v} != m.links:
                self.violation("S2F37-changed-reports-or-links")
                return
            self.resync()

    def do_redefine_after_delete_all(self):
        """Define, link, enable and request an event; delete all reports; define the *same* report id with other variables,
        link and enable again: the event report carries the new variables (whatever the equipment remembered of the old ones)."""
        rng = self.ctx.rng
        r, c = rng.choice(RPTIDS), rng.choice(CEIDS)
        v1 = rng.sample(VIDS, rng.randint(1, 2))
        v2 = rng.choice([v for v in ([VIDS[0]], [VIDS[1]], [VIDS[2]], VIDS[:2], VIDS[1:], list(reversed(VIDS))) if v != v1])
        self.hist.append(f"cycle: delete-all, define {r!r}={v1}, link {c}, enable, request; delete-all, define {r!r}={v2}, link, enable, request")
        self.ctx.count("request.redefine_same_report_after_delete_all")
        for vids in (v1, v2):
            steps = [(2, 33, e5ref.encode(("L", [("U4", [1]), ("L", [])])), 2, 34),
                     (2, 33, e5ref.encode(("L", [("U4", [1]), ("L", [("L", [idt(r), ("L", [idt(v) for v in vids])])])])), 2, 34),
                     (2, 35, e5ref.encode(("L", [("U4", [1]), ("L", [("L", [idt(c), ("L", [idt(r)])])])])), 2, 36),
                     (2, 37, e5ref.encode(("L", [("BOOLEAN", [True]), ("L", [idt(c)])])), 2, 38)]
            for s, f, body, rs, rf in steps:
                ack = self.ack(self.request(s, f, body), rs, rf)
                if ack is None or self.bad:
                    return
                if ack != 0:
                    self.violation(f"valid-S{s}F{f}-refused:cycle", ack=ack)
                    return
            self.resync()
            if self.m.reports.get(r) != list(vids) or self.m.links.get(c) != [r] or not self.m.enabled.get(c):
                self.violation("effect-differs-from-E5:cycle", reports=str(self.m.reports), links=str(self.m.links), enabled=str(self.m.enabled))
                return
            self.invariants(f"cycle:{vids}")
            if self.bad:
                return
            self.probe_trigger(c)
            if self.bad:
                return

    def step(self):
        rng = self.ctx.rng
        r = rng.random()
        if r < 0.04:
            self.do_redefine_after_delete_all()
        elif r < 0.36:
            self.do_s2f33()
        elif r < 0.68:
            self.do_s2f35()
        elif r < 0.84:
            self.do_s2f37()
        elif r < 0.90:
            self.sv.value = rng.randint(0, 2**32 - 1)
            self.dv.value = "".join(rng.choice("abcXYZ 09") for _ in range(rng.randint(0, 8)))
            self.store[11], self.store[31] = rng.randint(0, 2**32 - 1), rng.randint(0, 2**32 - 1)
            self.hist.append(f"values(sv10={self.sv.value}, dv30={self.dv.value!r}, hooks: sv11={self.store[11]}, dv31={self.store[31]})")
        else:
            self.probe_trigger(rng.choice(CEIDS))
        if not self.bad:
            self.invariants(self.hist[-1] if self.hist else "start")


THREAD_ERRORS = []


def run(ctx):
    vtime.install()

    def hook(args):
        THREAD_ERRORS.append(f"{args.thread.name if args.thread else '?'}: {args.exc_type.__name__}: {args.exc_value}")
    threading.excepthook = hook
    n = 30 if ctx.quick else 300
    length = 20 if ctx.quick else 60
    for i in range(n):
        run_ = Run(ctx)
        if not run_.ok:
            ctx.unsure("precondition failed: the handler did not reach COMMUNICATING with a cooperative peer (C07/C20 judge that)")
            run_.rig.shutdown()
            continue
        for _ in range(ctx.rng.randint(6, length)):
            if run_.bad:
                break
            run_.step()
        ctx.case(("hist", tuple(h.split("{")[0] for h in run_.hist)), nontrivial=run_.accepted["define"] > 0 and run_.accepted["link"] > 0)
        if i < 2:
            ctx.sample({"history": run_.hist[:10]})
        run_.rig.shutdown()
