"""C07 - the GEM communication state follows the E30 establish-communications model.

Real GemHostHandler / GemEquipmentHandler objects on a real HsmsProtocol over the in-memory connection, with
virtual timers. Random histories over {enable, disable, link selected, link lost, inbound S1F13, inbound S1F14
(any COMMACK, matching / stale / foreign system bytes), other primaries, T3 expiry, delay expiry}. Four trace
monitors implement the statement: M1 established only after a completed COMMACK=0 exchange on the current link,
M2 retry discipline after a failed attempt, M3 link loss / disable leaves the established state, M4 no user
callback while not established.
"""

from __future__ import annotations

import itertools
import threading
import time

from lib import e5ref, gen, stuck, vtime, wire

PROPERTY = "C07"
LEVEL = "exploration"
RULE = ("random histories (<= 14 events, thorough <= 40) for host and equipment roles, passive and active link, with "
        "on_commack_requested returning 0 or 1 (events: link up/down, S1F13/S1F14 with COMMACK 0/1/other, matching / stale / foreign "
        "system bytes, other messages, T3 and delay expiry - the oldest armed timer first, as real time would -, disable/enable); distinct by (role, commack policy, event sequence); non-trivial when at "
        "least one S1F13/S1F14 was exchanged; the handler's own waitfor_communicating() sampled with every state sample")
ASSUMPTIONS = ["what the handler answers to S1F13 received while waiting for the delay is not constrained by the statement",
               "an S1F14 with COMMACK=0 completes an attempt if its system bytes belong to any S1F13 sent on the current link "
               "(matching or stale); a foreign one does not", "'retried for as long as the link stays up' is restated as bounded "
               "progress: after a failed attempt a delay timer is pending and its expiry puts a new S1F13 on the wire by the "
               "next quiescent point", "any inbound message between the failure and the delay expiry may legitimately trigger "
               "an earlier retry (E30 WAIT DELAY / message received)"]
LEVEL_TEXT = ("Runtime trace monitoring of the real handlers against the four obligations of the statement under virtual time "
              "(timer expiries are history events, not races with the wall clock); histories sampled.")
LEVEL_NOTE = "Histories sampled; unbounded retry restated as bounded progress per attempt."
TECHNIQUE = "runtime trace monitors (E30 establish-communications obligations) over generated histories with virtual timers"
SHARDS = {"quick": 8, "thorough": 16}
TIMEOUT = {"quick": 400, "thorough": 3400}
FLOORS = {"oracle.waitfor_communicating_samples": 300, "oracle.M1_samples": 300, "oracle.M2_failed_attempts": 40, "oracle.M3_link_loss_or_disable": 60, "oracle.M4_callbacks": 40,
          "coverage.state_event_pairs": 30, "histories.host": 20, "histories.equipment": 20}


def _s1f14_body(commack, role):
    return e5ref.encode(("L", [("B", bytes([commack])), ("L", [] if role == "equipment" else [("A", b"peer"), ("A", b"1.0")])]))


def _s1f13_body(role):
    # sent by the scripted peer: peer is host when the handler under test is equipment
    return e5ref.encode(("L", [] if role == "equipment" else [("A", b"peer"), ("A", b"1.0")]))


class Run:
    def __init__(self, ctx, role, commack_policy, active):
        import secsgem.gem
        from lib.gemrig import GemRig

        self.ctx = ctx
        self.role = role
        base = secsgem.gem.GemEquipmentHandler if role == "equipment" else secsgem.gem.GemHostHandler
        policy = commack_policy

        class Handler(base):
            def on_commack_requested(self):
                return policy

        self.rig = GemRig(role=role, active=active, handler_cls=Handler, auto=False, t3=30, t6=3.0)
        self.h = self.rig.handler
        self.policy = policy
        self.hist = []
        self.sysgen = gen.system_bytes(ctx.rng, 0x20000000 + ctx.rng.randrange(1 << 16) * 256)
        self.enabled = True       # Rig() enables the handler
        self.bad = False
        self.callbacks = []       # (S,F, model_established_at_call)
        self.established_gen = None
        self.attempts_at_failure = None
        self.failed_pending = False     # a failed attempt happened, delay not fired yet, no inbound message since
        self.msg_since_failure = False
        self.seen = 0
        self.exchanged = 0
        self.pairs = set()
        for s, f in ((1, 1), (2, 17), (99, 1)):
            self.h.register_stream_function(s, f, self._spy(s, f))

    def _spy(self, s, f):
        def cb(handler, message):
            self.callbacks.append((s, f, self.model_established(), handler.communication_state.current.name))
            return None
        return cb

    # ---- trace helpers
    def link_gen(self):
        return self.rig.pipe.generation if self.rig.pipe.link_up else None

    def out_frames(self, gen=None):
        return [(g, f) for g, f in self.rig.data_frames() if gen is None or g == gen]

    def new_out(self):
        fr = self.rig.data_frames(self.seen)
        self.seen = self.rig.n_frames()
        return fr

    def model_established(self):
        """A COMMACK=0 exchange completed on the current link generation (as far as the harness injected / observed)."""
        gen = self.link_gen()
        return gen is not None and self.established_gen == gen and self.enabled

    def note(self, ev):
        self.hist.append(ev)
        self.pairs.add((self.rig.comm_state, ev.split("(")[0]))

    def wit(self, **kw):
        return {"role": self.role, "commack_policy": self.policy, "history": self.hist[-16:], "comm_state": self.rig.comm_state,
                "link_state": self.rig.state, "enabled": self.enabled, **kw}

    def violation(self, mech, **kw):
        self.ctx.violation(mech, self.wit(**kw))
        self.bad = True

    def settle(self):
        self.rig.quiesce(3.0)

    # ---- monitors evaluated at quiescent points
    def check_M1(self):
        self.ctx.count("oracle.M1_samples")
        if not self.bad:
            self.check_waitfor()
        if self.rig.comm_state == "COMMUNICATING" and not self.model_established():
            self.rig.wait(lambda: self.rig.comm_state != "COMMUNICATING", 0.5)
            if self.rig.comm_state == "COMMUNICATING" and not self.model_established():
                self.violation("M1:COMMUNICATING-without-completed-COMMACK0-exchange-on-current-link",
                               link_generation=self.link_gen(), established_on_generation=self.established_gen)
                self.established_gen = self.link_gen()   # resynchronise

    def check_waitfor(self):
        """The handler's own query agrees with its state: waitfor_communicating() tells the application whether communication is
        established *now* (after a link loss or disable() it is not, however often it was before)."""
        handler = self.rig.owner
        self.ctx.count("oracle.waitfor_communicating_samples")
        for attempt in range(2):
            before = self.rig.comm_state
            try:
                answer = handler.waitfor_communicating(0.02)
            except Exception as exc:
                self.violation(f"waitfor_communicating-raises:{type(exc).__name__}", error=repr(exc)[:200])
                return
            after = self.rig.comm_state
            if before != after or answer == (after == "COMMUNICATING"):
                return                      # agrees, or the state moved while asking
            if attempt == 0:
                time.sleep(0.3)             # ask again: only a stable disagreement counts
        self.violation("M3:waitfor_communicating-disagrees-with-the-communication-state", answer=answer, state=after)

    def sent_s1f13_systems(self, gen):
        return [f.system for g, f in self.out_frames(gen) if (f.stream, f.function) == (1, 13)]

    # ---- events
    def ev_link_up(self):
        self.note("link_selected")
        if self.rig.settings.is_active:
            ok = self.rig.answer_own_select()
        else:
            ok = self.rig.connect_and_select(system=next(self.sysgen))
        self.settle()
        self.new_out()
        if self.enabled and ok:
            # entering the attempt: an S1F13 must go out (bounded progress) unless communication is established already
            gen = self.link_gen()
            retry_armed = lambda: bool(vtime.pending(kind="_on_wait_cra_timeout", owner=self.h.communication_state)
                                       or vtime.pending(kind="_on_wait_comm_delay_timeout", owner=self.h.communication_state))
            if not self.sent_s1f13_systems(gen) and self.rig.comm_state != "COMMUNICATING" and not retry_armed():
                self.rig.wait(lambda: bool(self.sent_s1f13_systems(gen)) or retry_armed(), 1.0)
                if not self.sent_s1f13_systems(gen) and not retry_armed():
                    # neither an attempt on the new link nor a pending timer of an attempt still in progress
                    self.violation("M2:no-attempt-in-progress-after-link-selected", comm=self.rig.comm_state)
        self.check_M1()

    def ev_peer_close(self):
        self.note("peer_close")
        self.rig.pipe.peer_close()
        if not self.rig.pipe.wait_closed(5.0):
            self.ctx.count("close_sequence_did_not_finish")
            self.bad = True
            return
        self.settle()
        self.ctx.count("oracle.M3_link_loss_or_disable")
        if self.rig.comm_state == "COMMUNICATING":
            self.rig.wait(lambda: self.rig.comm_state != "COMMUNICATING", 0.5)
            if self.rig.comm_state == "COMMUNICATING":
                self.violation("M3:still-COMMUNICATING-after-link-loss")
        self.failed_pending = False

    def ev_peer_ends_session_then_closes(self, how):
        """The peer ends the HSMS session in an orderly way (Separate.req or Deselect.req) before it closes the connection."""
        self.note(f"peer {how} + close")
        system = next(self.sysgen)
        self.rig.pipe.feed(wire.hsms_control(wire.SEPARATE_REQ if how == "separate" else wire.DESELECT_REQ, system))
        self.rig.quiesce(1.0)
        if self.rig.pipe.link_up:
            self.rig.pipe.peer_close()
        if not self.rig.pipe.wait_closed(5.0):
            self.ctx.count("close_sequence_did_not_finish")
            self.bad = True
            return
        self.settle()
        self.ctx.count("oracle.M3_link_loss_or_disable")
        self.ctx.count("oracle.M3_orderly_session_end_before_close")
        if self.rig.comm_state == "COMMUNICATING":
            self.rig.confirm_absent(lambda: self.rig.comm_state != "COMMUNICATING")
            if self.rig.comm_state == "COMMUNICATING":
                self.violation(f"M3:still-COMMUNICATING-after-link-loss:peer-{how}-first")
        self.failed_pending = False

    def ev_change_delay(self):
        """The establish-communications delay is reconfigured while the handler runs (settings property; EC 'EstablishCommunicationsTimeout')."""
        new = self.ctx.rng.choice([3, 7, 15, 25, 60])
        self.note(f"configure delay={new}")
        self.h.settings.establish_communication_timeout = new
        self.ctx.count("delay_reconfigured")

    def ev_disable(self):
        self.note("disable")
        done = threading.Event()

        @stuck.harness_thread
        def run():
            try:
                self.h.disable()
            except Exception as exc:
                self.err = repr(exc)
            done.set()
        self.err = None
        threading.Thread(target=run, daemon=True).start()
        if not done.wait(5.0):
            self.ctx.count("disable_did_not_return")
            self.bad = True
            return
        self.enabled = False
        self.settle()
        self.ctx.count("oracle.M3_link_loss_or_disable")
        if self.err:
            self.violation("disable-raises", error=self.err)
        elif self.rig.comm_state == "COMMUNICATING":
            self.violation("M3:still-COMMUNICATING-after-disable")
        self.failed_pending = False

    def ev_enable(self):
        self.note("enable")
        try:
            self.h.enable()
        except Exception as exc:
            self.violation("enable-raises", error=repr(exc))
            return
        self.enabled = True
        self.settle()
        self.check_M1()

    def ev_s1f13(self):
        system = next(self.sysgen)
        # a peer that does not ask for the reply (W-bit clear): whatever the handler makes of it, M1 still demands a completed
        # S1F13/S1F14 exchange before COMMUNICATING is reported
        wbit = self.ctx.rng.random() >= 0.2
        if not wbit:
            self.ctx.count("inbound_S1F13_without_W_bit")
        self.note(f"in S1F13{'' if wbit else '-without-W'}({system:#x})")
        before = self.rig.comm_state
        self.rig.inject(1, 13, wbit, _s1f13_body(self.role), system)
        self.msg_since_failure = True
        self.exchanged += 1
        self.rig.wait(lambda: any(f.system == system for _, f in self.rig.data_frames(self.seen)), 2.0)
        self.settle()
        fr = self.new_out()
        mine = [f for _, f in fr if f.system == system]
        for f in mine:
            if (f.stream, f.function) == (1, 14):
                try:
                    commack = e5ref.decode_all(f.body)[1][0][1][0]
                except Exception:
                    commack = None
                if commack == 0 and self.link_gen() is not None:
                    self.established_gen = self.link_gen()
        self.check_M1()

    def ev_s1f14(self, commack, which):
        gen = self.link_gen()
        sent = self.sent_s1f13_systems(gen)
        if not sent:
            return   # no S1F13 was sent on this link: an S1F14 would be neither matching nor stale (outside the quantifier)
        if which == "foreign":
            system = next(self.sysgen)
        elif which == "stale" and len(sent) > 1:
            system = sent[-2]
        else:
            system = sent[-1]
            which = "matching"
        self.note(f"in S1F14(commack={commack},{which},{system:#x})")
        state_before = self.rig.comm_state
        self.rig.inject(1, 14, False, _s1f14_body(commack, self.role), system)
        self.exchanged += 1
        if commack == 0 and which != "foreign" and state_before == "WAIT_CRA":
            self.established_gen = gen
        self.settle()
        self.new_out()
        if state_before == "WAIT_CRA" and commack != 0:
            # a refused attempt: must not be established, and must be retried after the delay
            self.ctx.count("oracle.M2_failed_attempts")
            self.failed_pending = True
            self.attempts_at_failure = self.attempts_started()
            self.msg_since_failure = False
            self.check_M1()
            if not self.bad:
                self.check_delay_pending("refused")
            return
        self.msg_since_failure = True
        self.check_M1()

    def check_delay_pending(self, why):
        if self.rig.comm_state == "COMMUNICATING" or self.link_gen() is None or not self.enabled:
            return
        def look():
            return (vtime.pending(kind="_on_wait_comm_delay_timeout", owner=self.h.communication_state),
                    vtime.pending(kind="_on_wait_cra_timeout", owner=self.h.communication_state))
        timers, t3 = look()
        if not timers:
            # suspicious: before calling the delay absent give a woken dispatcher thread wall-clock time to run (loaded machine)
            self.rig.confirm_absent(lambda: bool(look()[0]) or self.rig.comm_state == "COMMUNICATING")
            if self.rig.comm_state == "COMMUNICATING":
                return
            timers, t3 = look()
        if timers:
            want = self.h.settings.establish_communication_timeout
            self.ctx.count("oracle.M2_delay_interval_checked")
            if abs(timers[-1].interval - want) > 1e-9:
                self.violation("M2:retry-delay-differs-from-the-configured-delay", armed_for_s=timers[-1].interval, configured_s=want)
                return
        if not timers and not t3:
            self.violation(f"M2:no-retry-scheduled-after-{why}-attempt", pending=[t.kind for t in vtime.pending()])
        elif why == "refused" and not timers:
            # an explicit refusal ends the attempt: the retry is due after the establish-communications delay, not after
            # the reply time-out of a request that has already been answered
            self.violation("M2:refused-attempt-not-followed-by-the-delay", comm=self.rig.comm_state, pending=[t.kind for t in t3])

    def ev_other(self, s, f, wbit):
        system = next(self.sysgen)
        self.note(f"in S{s}F{f}{'W' if wbit else ''}({system:#x})")
        n0 = len(self.callbacks)
        self.rig.inject(s, f, wbit, b"", system)
        self.msg_since_failure = True
        self.settle()
        self.new_out()
        for cb in self.callbacks[n0:]:
            self.ctx.count("oracle.M4_callbacks")
            if not cb[2]:
                self.violation("M4:user-callback-while-communication-not-established", callback=f"S{cb[0]}F{cb[1]}", library_state=cb[3])
        self.check_M1()

    def ev_fire_t3(self):
        timers = vtime.pending(kind="_on_wait_cra_timeout", owner=self.h.communication_state)
        if not timers:
            return False
        state_before = self.rig.comm_state
        attempts_before = self.attempts_started()
        self.note("T3_expires")
        th = vtime.fire(timers[0])
        if th is not None:
            th.join(3.0)
        self.settle()
        out = self.new_out()
        if state_before == "WAIT_CRA":
            self.ctx.count("oracle.M2_failed_attempts")
            self.failed_pending = True
            self.msg_since_failure = False
            # no new S1F13 before the delay timer fires
            self.attempts_at_failure = self.attempts_started()
            if any((f.stream, f.function) == (1, 13) for _, f in out) and self.retried_early(attempts_before):
                self.violation("M2:S1F13-resent-before-the-delay-expired")
            self.check_delay_pending("unanswered")
        self.check_M1()
        return True

    def ev_fire_delay(self):
        timers = vtime.pending(kind="_on_wait_comm_delay_timeout", owner=self.h.communication_state)
        if not timers:
            return False
        if len(timers) > 1:
            # more than one delay timer is armed: all but the newest belong to an earlier episode (disable, link loss) and are
            # due before the delay of the current one has run out - in real time they fire first. They must have no effect.
            self.note("stale_delay_timer_expires")
            self.ctx.count("oracle.M2_stale_timer_fired")
            state_before = self.rig.comm_state
            th = vtime.fire(timers[0])
            if th is not None:
                th.join(3.0)
            self.settle()
            out = self.new_out()
            if any((f.stream, f.function) == (1, 13) for _, f in out) or (state_before == "WAIT_DELAY" and self.rig.comm_state != state_before):
                self.violation("M2:delay-timer-of-an-earlier-episode-triggers-the-retry-early", comm_before=state_before, comm_after=self.rig.comm_state)
            return True
        self.note("delay_expires")
        link = self.link_gen()
        state_before = self.rig.comm_state
        th = vtime.fire(timers[0])
        if th is not None:
            th.join(3.0)
            if th.is_alive():
                if link is None:
                    self.ctx.count("retry_without_link_blocks_timer_thread")
                else:
                    self.violation("M2:retry-blocked-although-link-is-up", stacks=stuck.stacks())
                self.bad = True
                return True
        self.settle()
        out = self.new_out()
        if link is not None and self.enabled and state_before == "WAIT_DELAY":
            if not any((f.stream, f.function) == (1, 13) for _, f in out) and self.rig.comm_state != "COMMUNICATING":
                self.rig.wait(lambda: any((f.stream, f.function) == (1, 13) for _, f in self.rig.data_frames(self.seen)), 1.0)
                out += self.new_out()
                if not any((f.stream, f.function) == (1, 13) for _, f in out):
                    self.violation("M2:no-S1F13-after-the-delay-expired", comm=self.rig.comm_state)
        self.failed_pending = False
        self.check_M1()
        return True

    def check_no_early_retry(self):
        """Between a failure and the delay expiry (with no inbound message) no S1F13 may appear."""
        if self.failed_pending and not self.msg_since_failure:
            out = self.rig.data_frames(self.seen)
            if any((f.stream, f.function) == (1, 13) for _, f in out) and self.retried_early(self.attempts_at_failure):
                self.violation("M2:S1F13-resent-before-the-delay-expired")

    def attempts_started(self):
        """Attempts begun so far: every entry into WAIT CRA arms the reply timer first and sends its S1F13 afterwards."""
        return vtime.started_count("_on_wait_cra_timeout", owner=self.h.communication_state)

    def retried_early(self, attempts_before):
        """An S1F13 showed up where none is due. On a loaded machine it can be the *first* S1F13 of the attempt that just failed
        (its sending thread was kept off the processor between arming the timer and the send); it is a retry only if a new
        attempt was begun in the meantime or more S1F13 are on the wire than attempts were begun."""
        sent = sum(1 for _, f in self.rig.data_frames(0) if (f.stream, f.function) == (1, 13))
        return self.attempts_started() > (attempts_before if attempts_before is not None else 0) or sent > self.attempts_started()

    def finish(self):
        self.rig.shutdown(5.0)
        for t in vtime.pending(owner=self.h.communication_state):
            t.cancel()
        for t in vtime.pending(owner=self.rig.protocol):
            t.cancel()


def _history(ctx, i, length):
    rng = ctx.rng
    role = "equipment" if i % 2 == 0 else "host"
    policy = 0 if rng.random() < 0.7 else 1
    run = Run(ctx, role, policy, active=rng.random() < 0.3)
    ctx.count(f"histories.{role}")
    for step in range(length):
        if run.bad:
            break
        up = run.rig.pipe.link_up
        r = rng.random()
        if not run.enabled:
            run.ev_enable() if r < 0.8 else run.ev_other(1, 1, True) if up else run.ev_enable()
            continue
        if not up:
            if r < 0.06:
                run.ev_change_delay()
            elif r < 0.75:
                run.ev_link_up()
            elif r < 0.85:
                run.ev_disable()
            elif r < 0.93:
                run.ev_fire_t3() or run.ev_link_up()
            else:
                run.ev_fire_delay() or run.ev_link_up()
            continue
        if r < 0.05:
            run.ev_peer_close()
        elif r < 0.08:
            run.ev_peer_ends_session_then_closes(rng.choice(["separate", "deselect"]))
        elif r < 0.10:
            run.ev_change_delay()
        elif r < 0.12:
            run.ev_disable()
        elif r < 0.30:
            run.ev_s1f14(rng.choice([0, 0, 1, 1, 2]), rng.choice(["matching", "matching", "stale"]))
        elif r < 0.45:
            run.ev_s1f13()
        elif r < 0.62:
            run.ev_other(*rng.choice([(1, 1, True), (2, 17, True), (99, 1, True), (1, 1, False), (7, 19, True)]))
        elif r < 0.82:
            run.ev_fire_t3() or run.ev_fire_delay() or run.ev_s1f13()
        else:
            run.ev_fire_delay() or run.ev_fire_t3() or run.ev_other(1, 1, True)
        run.check_no_early_retry()
    ctx.case(("hist", role, policy, tuple(h.split("(")[0] + (h[h.index("commack"):h.index(",", h.index("commack")) + 9] if "commack" in h else "") for h in run.hist)),
             nontrivial=run.exchanged > 0)
    if i < 2:
        ctx.sample({"role": role, "commack_policy": policy, "history": run.hist[:14]})
    run.finish()
    return run.pairs


def run(ctx):
    vtime.install()
    n = 40 if ctx.quick else 250
    length = 14 if ctx.quick else 40
    pairs = set()
    for i in range(n):
        pairs |= _history(ctx, i, ctx.rng.randint(5, length))
    ctx.count("coverage.state_event_pairs", len(pairs))
