"""C03 - every catalogued stream/function round-trips and is found by its S/F numbers.

(a) For each catalogued function a generator walks an independent parse of its structure definition and the
data item catalogue, producing structure-conforming values (every allowed alternative type, list lengths,
boundary lengths of length-limited items).  The body produced by the real class must equal the reference E5
encoding; looked up only by (S, F) it must decode to the same class with an equal value; plain Python values
must read back unchanged.  (b) Catalogue consistency (functions/*.py vs functions.yaml, primary/secondary
pairing, flags, lookup over all 128 x 256 S/F numbers) is enumerated completely.
"""

from __future__ import annotations

import inspect

from checks.c19 import doc_key, parse_shipped
from lib import e5ref, gen, sv

PROPERTY = "C03"
LEVEL = "exploration"
RULE = ("for each of the catalogued functions with a structure: values built from an independent parse of the structure "
        "(records as dicts or positional lists, open lists of length 0/1/2/7/256, every allowed alternative type of each "
        "data item forced with typed wrappers, item lengths 0/1/limit-1/limit) plus plain-Python-value variants (incl. doubles wherever F8 is allowed); public flag attributes of class and object; the "
        "catalogue consistency sub-check enumerates all catalogued functions and all 128x256 (S,F) lookups; distinct by "
        "(function, reference body, input style); non-trivial when the body is non-empty; plain 1 / 1.0 / True one after the other to S6F20, S1F4, S2F14")
ASSUMPTIONS = ["lib/e5ref.py is the E5 reference", "fixed-type data items take plain Python values, multi-format items take "
               "typed wrappers to force a format (the library's documented convention)", "S1F2/S1F14-style dual structures "
               "are exercised in the catalogued structure only"]
LEVEL_TEXT = ("Differential runtime monitoring of every catalogued function class and of lookup-by-S/F against the reference "
              "codec and an independent structure parse; values sampled per function, catalogue metadata enumerated.")
LEVEL_NOTE = "Sampled values per function; the structure model is the SFDL documentation (validated by C19)."
TECHNIQUE = "runtime differential oracle over structure-conforming generated values + exhaustive catalogue cross-check"
SHARDS = {"quick": 8, "thorough": 16}
TIMEOUT = {"quick": 300, "thorough": 3000}
FLOORS = {"oracle.typed_roundtrip": 2000, "oracle.plain_roundtrip": 500, "functions.with_structure_covered": 100,
          "catalogue.functions_checked": 100, "catalogue.lookups": 128 * 256, "alternatives.covered": 100, "catalogue.isolation_checks": 10}


def _items_catalogue():
    from secsgem.secs import data_items as DI
    V = sv.V
    rev = {cls: fmt for fmt, cls in sv.VCLS.items()}
    out = {}
    for name, cls in inspect.getmembers(DI, inspect.isclass):
        if not issubclass(cls, DI.DataItemBase) or cls is DI.DataItemBase:
            continue
        typ = cls.__type__
        dyn = typ is V.Dynamic
        allowed = cls.__allowedtypes__ if dyn else [typ]
        fmts = ["L" if t is V.Array else rev[t] for t in allowed if t is V.Array or t in rev]
        out[name] = {"fmts": fmts, "count": cls.__count__, "dynamic": dyn}
    return out


def _plain_of(leaf):
    """Plain Python value in the natural form for a leaf tree."""
    fmt, val = leaf
    if fmt == "B":
        return bytes(val)
    if fmt in ("A", "J"):
        return bytes(val).decode("latin-1") if fmt == "A" else sv.jis_text(val)
    if fmt == "BOOLEAN":
        return bool(val[0]) if len(val) == 1 else [bool(v) for v in val]
    return val[0] if len(val) == 1 else list(val)


def build(ast, cat, rng, stats, force=None, prefer=None):
    """-> (tree, typed input, plain input or None, expected get()). `prefer`: a format every item that allows it takes (one element)."""
    if ast[0] == "item":
        info = cat[ast[1]]
        fmts = info["fmts"]
        fmt = force or (prefer if prefer in fmts else rng.choice(fmts))
        stats.add((ast[1], fmt))
        if fmt == "L":
            plainable = rng.random() < 0.5
            if plainable:
                # also given as a plain Python list (a list wins over the numeric alternatives by design, its elements are typed
                # one by one): one-element lists in particular must stay lists
                kids = [gen.leaf(rng, rng.choice(["U4", "A", "I2", "BOOLEAN"]), n=1) for _ in range(rng.choice([0, 1, 1, 1, 2, 3]))]
            else:
                kids = [gen.leaf(rng, rng.choice(["U4", "A", "B", "I2", "F8"]), n=rng.choice([1, 2])) for _ in range(rng.randint(0, 3))]
            tree = ("L", kids)
            typed = sv.V.Array(sv.ANYVALUE, [sv.to_variable(k) for k in kids])
            plain = [_plain_of(k) for k in kids] if plainable else None
            if plain is not None:
                stats.add((ast[1], "L-as-plain-list"))
            return tree, typed, plain, [sv.expected_get(k) for k in kids]
        count = info["count"]
        if count > 0:
            n = rng.choice(sorted({0, 1, max(0, count - 1), count}))
        else:
            n = rng.choice([0, 1, 1, 1, 2, 5])
        if prefer is not None and fmt == prefer and (count <= 0 or count >= 1):
            n = 1
        leaf = gen.leaf(rng, fmt, n=n)
        inp = sv.leaf_input(leaf)[0]
        typed = sv.VCLS[fmt](inp) if info["dynamic"] else inp
        plain = _plain_of(leaf) if n >= 1 else None
        if plain is not None and fmt == "F8" and n >= 1 and ast[1] in KNOWN_F4_BEFORE_F8:
            import struct
            # (a plain list of floats is typed as a whole by the same rule: F4 when every element lies in its range)
            for x in leaf[1]:
                try:
                    exact = struct.unpack(">f", struct.pack(">f", x))[0] == x
                except OverflowError:
                    exact = True      # outside the binary32 range: F4 cannot be chosen
                if not exact:
                    _RISKY_PLAIN_FLOATS.add(struct.pack(">d", x))
        if info["dynamic"] and fmt == "B" and any(f in ("A", "J") for f in fmts):
            plain = None  # plain bytes are ambiguous for an item that allows both text and binary (text wins by design)
        if info["dynamic"] and n > 1 and "L" in fmts and fmt in ("F4", "F8"):
            # a plain Python list for an item that also allows a list is read as a list item (by design); its elements are then
            # typed one by one (floats: see the known finding), so only integer and boolean lists have an unambiguous expectation
            plain = None
        return leaf, typed, plain, sv.expected_get(leaf)
    _, name, members = ast
    if len(members) == 1:
        k = rng.choice([0, 1, 2, 2, 7]) if rng.random() < 0.97 else 256
        if k == 256 and members[0][0] != "item":
            k = 7
        built = [build(members[0], cat, rng, stats, prefer=prefer) for _ in range(k)]
        plain = [b[2] for b in built] if all(b[2] is not None for b in built) else None
        return ("L", [b[0] for b in built]), [b[1] for b in built], plain, [b[3] for b in built]
    built = [build(m, cat, rng, stats, prefer=prefer) for m in members]
    keys = [doc_key(m) for m in members]
    as_dict = rng.random() < 0.6
    typed = {k: b[1] for k, b in zip(keys, built)} if as_dict else [b[1] for b in built]
    plain = None
    if all(b[2] is not None for b in built):
        plain = {k: b[2] for k, b in zip(keys, built)} if as_dict else [b[2] for b in built]
    return ("L", [b[0] for b in built]), typed, plain, {k: b[3] for k, b in zip(keys, built)}


def _message(S, F, W, body, system=1, dev=0):
    import secsgem.hsms as H

    return H.HsmsMessage(H.HsmsStreamFunctionHeader(system, S, F, W, dev), body)


def _f4_lenient(a, b):
    return sv.same_value(a, b, f4=True)


# Known finding (known_findings.json, C03 plain-float-sent-as-F4-although-F8-is-allowed): the data items whose allowed types
# list F4 before F8 on the tree the finding was recorded on. Pinned here: an item that starts to behave like this later is new.
KNOWN_F4_BEFORE_F8 = frozenset({"ATTRDATA", "CEPVAL", "DVVAL", "LIMITMAX", "LIMITMIN", "LOWERDB", "SV", "UPPERDB", "V", "XDIES", "YDIES"})
_RISKY_PLAIN_FLOATS: set = set()      # bit patterns of the plain floats built for those items (not exact in binary32)


def _differing_leaves(got, expected):
    """[(got leaf, expected leaf)] for every unequal leaf of two equally shaped values, None if the shapes differ."""
    if isinstance(got, dict) and isinstance(expected, dict):
        if list(got.keys()) != list(expected.keys()):
            return None
        got, expected = list(got.values()), list(expected.values())
    if isinstance(got, (list, tuple)) and isinstance(expected, (list, tuple)):
        if len(got) != len(expected):
            return None
        out = []
        for g, e in zip(got, expected):
            d = _differing_leaves(g, e)
            if d is None:
                return None
            out += d
        return out
    if isinstance(got, (dict, list, tuple)) or isinstance(expected, (dict, list, tuple)):
        return None
    return [] if sv.same_value(got, expected) else [(got, expected)]


def _only_the_known_f4_rounding(got, expected):
    import struct

    diff = _differing_leaves(got, expected)
    if not diff:
        return False
    for g, e in diff:
        if not (isinstance(g, float) and isinstance(e, float) and struct.pack(">d", e) in _RISKY_PLAIN_FLOATS):
            return False
        try:
            if struct.pack(">f", g) != struct.pack(">f", e):
                return False
        except OverflowError:
            return False
    return True


def _typed_case(ctx, cls, SF, tree, typed, expected, label):
    ref = e5ref.encode(tree)
    ctx.case((label, "typed", ref if len(ref) < 2048 else (ref[:64], len(ref), hash(ref))), nontrivial=len(ref) > 2)
    wit = {"function": label, "tree": gen.describe(tree), "reference_body": ref[:100]}
    try:
        obj = cls(typed)
    except Exception as exc:
        ctx.violation(f"conforming-value-rejected:{type(exc).__name__}", {**wit, "error": repr(exc)[:300]})
        return
    ctx.count("oracle.typed_roundtrip")
    try:
        body = obj.encode()
        if body != ref:
            ctx.violation("body-differs-from-reference", {**wit, "body": body[:100]})
            return
        dec = SF.decode(_message(cls.stream, cls.function, cls._is_reply_required, body))
        if type(dec) is not cls:
            ctx.violation("lookup-by-SF-gives-other-class", {**wit, "got": type(dec).__name__})
            return
        got = dec.get()
        if not sv.same_value(got, expected):
            ctx.violation("decoded-value-differs", {**wit, "got": got, "expected": expected})
        if dec.encode() != body:
            ctx.violation("reencode-differs", {**wit, "reencoded": dec.encode()[:100]})
        got0 = obj.get()
        if not _f4_lenient(got0, expected):
            ctx.violation("constructed-value-differs", {**wit, "got": got0, "expected": expected})
    except Exception as exc:
        ctx.violation(f"roundtrip-raises:{type(exc).__name__}", {**wit, "error": repr(exc)[:300]})


def _plain_case(ctx, cls, SF, plain, expected, label):
    ctx.case((label, "plain", repr(plain)[:2000]), nontrivial=True)
    wit = {"function": label, "plain_value": repr(plain)[:600]}
    try:
        obj = cls(plain)
    except Exception as exc:
        ctx.violation(f"plain-value-rejected:{type(exc).__name__}", {**wit, "error": repr(exc)[:300]})
        return
    ctx.count("oracle.plain_roundtrip")
    try:
        got = obj.get()
        if not sv.same_value(got, expected):
            ctx.violation("plain-value-not-read-back", {**wit, "got": got, "expected": expected})
            return
        body = obj.encode()
        e5ref.decode_all(body) if body else None
        dec = SF.decode(_message(cls.stream, cls.function, cls._is_reply_required, body))
        if type(dec) is not cls:
            ctx.violation("lookup-by-SF-gives-other-class", {**wit, "got": type(dec).__name__})
            return
        got2 = dec.get()
        # exact: a plain float chosen for an F4 leaf is exactly representable in single precision, one chosen for an F8 leaf belongs
        # to an item that allows F8 - in both cases a format exists that carries the value unchanged
        if not sv.same_value(got2, expected):
            if _only_the_known_f4_rounding(got2, expected):
                ctx.violation("plain-float-sent-as-F4-although-F8-is-allowed", {**wit, "got": got2, "expected": expected, "body": body[:100]})
            else:
                ctx.violation("plain-value-differs-after-roundtrip", {**wit, "got": got2, "expected": expected, "body": body[:100]})
        if dec.encode() != body:
            ctx.violation("reencode-differs", {**wit})
    except Exception as exc:
        ctx.violation(f"plain-roundtrip-raises:{type(exc).__name__}", {**wit, "error": repr(exc)[:300]})


def _catalogue_consistency(ctx):
    import os

    import yaml

    import secsgem.secs
    from secsgem.secs.functions import StreamsFunctions
    from secsgem.secs.functions._all import secs_streams_functions

    with open(os.path.join(os.path.dirname(secsgem.secs.__file__), "functions.yaml")) as fh:
        y = yaml.safe_load(fh)
    classes = {(c.stream, c.function): c for c in secs_streams_functions}
    if len(classes) != len(secs_streams_functions):
        ctx.violation("catalogue-duplicate-SF", {"n": len(secs_streams_functions)})
    ykeys = {(int(k[1:3]), int(k[4:6])): v for k, v in y.items()}
    if set(ykeys) != set(classes):
        ctx.violation("catalogue-yaml-keys-differ", {"only_yaml": sorted(set(ykeys) - set(classes))[:10], "only_py": sorted(set(classes) - set(ykeys))[:10]})
    SF = StreamsFunctions()
    for (s, f), c in sorted(classes.items()):
        ctx.count("catalogue.functions_checked")
        ctx.case(("catalogue", s, f), nontrivial=True)
        label = f"S{s}F{f}"
        if c.__name__ != f"SecsS{s:02d}F{f:02d}":
            ctx.violation("class-name-vs-numbers", {"class": c.__name__, "S/F": label})
        yv = ykeys.get((s, f))
        if yv is not None:
            flags = {"to_host": c._to_host, "to_equipment": c._to_equipment, "reply": c._has_reply,
                     "reply_required": c._is_reply_required, "multi_block": c._is_multi_block}
            for k, v in flags.items():
                if bool(yv.get(k)) != bool(v):
                    ctx.violation("flag-differs-from-yaml", {"function": label, "flag": k, "python": v, "yaml": yv.get(k)})
            # the public attributes of a function object (what the protocols read, e.g. to set the W-bit) say the same
            try:
                obj = c()
            except Exception as exc:
                obj = None
                ctx.violation("catalogued-function-not-constructible-without-value", {"function": label, "error": repr(exc)[:200]})
            public = {"to_host": "to_host", "to_equipment": "to_equipment", "reply": "has_reply", "reply_required": "is_reply_required",
                      "multi_block": "is_multi_block"}
            for k, attr in public.items():
                for holder, what in ((obj, "object"), (c, "class")):
                    if holder is None or not hasattr(holder, attr):
                        continue
                    v = getattr(holder, attr)
                    if isinstance(v, property) or callable(v):
                        continue
                    ctx.count("catalogue.public_flags_checked")
                    if bool(yv.get(k)) != bool(v):
                        ctx.violation("public-flag-differs-from-yaml", {"function": label, "attribute": attr, "on": what, "python": v, "yaml": yv.get(k)})
            ystruct = yv.get("structure")
            pstruct = c._data_format
            norm = (lambda t: " ".join(t.split()) if isinstance(t, str) else t)
            if norm(ystruct) != norm(pstruct):
                ctx.violation("structure-differs-from-yaml", {"function": label, "python": norm(pstruct), "yaml": norm(ystruct)})
        if c._is_reply_required and not c._has_reply:
            ctx.violation("reply-required-without-reply", {"function": label})
        if f % 2 == 0 and (c._has_reply or c._is_reply_required):
            ctx.violation("secondary-expects-reply", {"function": label})
        if c._has_reply:
            partner = classes.get((s, f + 1))
            if partner is None:
                ctx.violation("primary-without-secondary", {"function": label})
            else:
                if partner._has_reply or partner._is_reply_required:
                    ctx.violation("secondary-expects-reply", {"function": f"S{s}F{f + 1}"})
                if (c._to_host and not partner._to_equipment) or (c._to_equipment and not partner._to_host):
                    ctx.violation("pair-direction-mismatch", {"primary": label, "primary_dir": [c._to_host, c._to_equipment],
                                                              "secondary_dir": [partner._to_host, partner._to_equipment]})
    for s in range(128):
        for f in range(256):
            ctx.count("catalogue.lookups")
            got = SF.function(s, f)
            if got is not classes.get((s, f)):
                ctx.violation("lookup-wrong-class", {"S/F": f"S{s}F{f}", "got": getattr(got, "__name__", None)})
    ctx.exhaustive["catalogue_metadata_and_all_SF_lookups"] = True


def _catalogue_isolation(ctx):
    """Customising one container (the documented StreamsFunctions.update) must not change what any other default container,
    or the shipped catalogue, resolves for the same S/F numbers."""
    from secsgem.secs.functions import SecsStreamFunction, StreamsFunctions
    from secsgem.secs.functions._all import secs_streams_functions

    rng = ctx.rng
    shipped = {(c.stream, c.function): c for c in secs_streams_functions}
    for s, f in [(1, 12), (6, 11), (2, 42), (99, 1), (1, 1)] + [rng.choice(sorted(shipped)) for _ in range(10)]:
        custom = type(f"CustomS{s:02d}F{f:02d}", (SecsStreamFunction,), {"_stream": s, "_function": f, "_data_format": "< MDLN >"})
        a = StreamsFunctions()
        a.update(custom)
        b = StreamsFunctions()
        ctx.count("catalogue.isolation_checks")
        ctx.case(("isolation", s, f), nontrivial=True)
        if a.function(s, f) is not custom:
            ctx.violation("update-does-not-take-effect-in-its-own-container", {"S/F": f"S{s}F{f}"})
        if b.function(s, f) is not shipped.get((s, f)):
            ctx.violation("customising-one-container-changes-lookup-in-another", {"S/F": f"S{s}F{f}", "got": getattr(b.function(s, f), "__name__", None)})
        now = {(c.stream, c.function): c for c in secs_streams_functions}
        if now != shipped:
            ctx.violation("customising-a-container-rewrites-the-shipped-catalogue", {"S/F": f"S{s}F{f}"})
            secs_streams_functions[:] = list(shipped.values())


def _container_in_use_is_extended(ctx):
    """A container that has already resolved functions and decoded messages gets further functions through update(): numbers
    the catalogue does not know, and replacements of catalogued ones, in any order, with lookups in between. Every one must be
    found by its S/F numbers and decode from then on; everything else resolves as before."""
    import secsgem.hsms as H
    from secsgem.secs.functions import SecsStreamFunction, StreamsFunctions
    from secsgem.secs.functions._all import secs_streams_functions

    rng = ctx.rng
    shipped = {(c.stream, c.function): c for c in secs_streams_functions}
    free = [(s, f) for s in (1, 2, 6, 21, 64, 100, 127) for f in (1, 2, 65, 99, 101, 255) if (s, f) not in shipped]
    for rnd in range(6):
        c = StreamsFunctions()
        expected = dict(shipped)
        steps = []
        for step in range(rng.randint(2, 8)):
            # use the container first: lookups of known and unknown numbers, one decode
            for s, f in [rng.choice(sorted(shipped)) for _ in range(3)] + [rng.choice(free)]:
                got = c.function(s, f)
                ctx.count("catalogue.lookups_in_container_in_use")
                if got is not expected.get((s, f)):
                    ctx.violation("lookup-wrong-class:container-in-use", {"S/F": f"S{s}F{f}", "got": getattr(got, "__name__", None),
                                                                          "want": getattr(expected.get((s, f)), "__name__", None), "updates_before": steps})
                    return
            new_number = rng.random() < 0.6
            s, f = rng.choice(free) if new_number else rng.choice(sorted(shipped))
            custom = type(f"InUseS{s:02d}F{f:02d}v{step}", (SecsStreamFunction,), {"_stream": s, "_function": f, "_data_format": "< MDLN >"})
            if not new_number and rng.random() < 0.6:
                # the short way to write a variant: derive from the catalogued function (numbers and flags are inherited) and
                # replace the structure only - after the catalogued class itself has been used
                parent = expected[(s, f)]
                try:
                    parent().encode()
                    parent.get_format()
                    repr(parent())
                except Exception:  # noqa: BLE001
                    pass
                custom = type(f"DerivedS{s:02d}F{f:02d}v{step}", (parent,), {"_data_format": "< MDLN >"})
                ctx.count("catalogue.replacements_derived_from_the_catalogued_class_after_it_was_used")
            c.update(custom)
            expected[(s, f)] = custom
            steps.append(f"update(S{s}F{f}{' new number' if new_number else ' replaces catalogued'})")
            ctx.count("catalogue.updates_of_container_in_use")
            ctx.case(("in-use", rnd, step, s, f, new_number), nontrivial=True)
            got = c.function(s, f)
            if got is not custom:
                ctx.violation("update-does-not-take-effect-in-its-own-container:container-in-use",
                              {"S/F": f"S{s}F{f}", "got": getattr(got, "__name__", None), "history": steps})
                return
            if custom not in c.stream(s):
                ctx.violation("updated-function-missing-from-its-stream-list", {"S/F": f"S{s}F{f}", "history": steps})
                return
            try:
                body = custom("model").encode()
                obj = c.decode(H.HsmsMessage(H.HsmsStreamFunctionHeader(1, s, f, False, 0), body))
                ok = type(obj) is custom and obj.get() == "model"
                err = None
            except Exception as exc:  # noqa: BLE001
                ok, err = False, repr(exc)[:200]
            if not ok:
                ctx.violation("updated-function-not-decoded-by-its-container", {"S/F": f"S{s}F{f}", "error": err, "history": steps})
                return
    now = {(c2.stream, c2.function): c2 for c2 in secs_streams_functions}
    if now != shipped:
        ctx.violation("customising-a-container-rewrites-the-shipped-catalogue", {"where": "container in use"})
        secs_streams_functions[:] = list(shipped.values())


def _equal_values_of_other_kinds(ctx, SF, rounds):
    """Plain 1, 1.0, True (0, 0.0, False) - equal in Python, different kinds - given one after the other, in any order, to functions
    whose items allow an integer, a float and the boolean type: each is read back as its own kind, whatever was sent before.
    (A Python bool is an int too: it stays a boolean when Boolean stands before every integer type in the item's list.)"""
    from secsgem.secs import data_items as DI
    from secsgem.secs import functions as F

    rng = ctx.rng
    targets = [(F.SecsS06F20, DI.V), (F.SecsS01F04, DI.SV), (F.SecsS02F14, DI.ECV)]
    for _ in range(rounds):
        cls, item = rng.choice(targets)
        names = [t.__name__ for t in item.__allowedtypes__]
        first_int = min((names.index(n) for n in names if n[0] in "UI" and n[1:].isdigit()), default=len(names))
        bool_first = "Boolean" in names and names.index("Boolean") < first_int
        k = rng.choice([0, 1])
        values = [k, float(k), bool(k)]
        rng.shuffle(values)
        for val in values + [rng.choice(values)]:
            ctx.count("oracle.equal_values_of_other_kinds")
            want = val if not isinstance(val, bool) or bool_first else int(val)
            wit = {"function": f"S{cls.stream}F{cls.function}", "value": repr(val), "order": [repr(v) for v in values]}
            try:
                obj = cls([val])
                dec = SF.decode(_message(cls.stream, cls.function, cls._is_reply_required, obj.encode()))
                got = dec.get()
            except Exception as exc:
                ctx.violation(f"plain-roundtrip-raises:{type(exc).__name__}", {**wit, "error": repr(exc)[:300]})
                return
            if not (isinstance(got, list) and len(got) == 1 and type(got[0]) is type(want) and got[0] == want):
                ctx.violation("plain-value-comes-back-as-another-kind", {**wit, "got": repr(got)})
                return


def run(ctx):
    from secsgem.secs.functions import StreamsFunctions
    from secsgem.secs.functions._all import secs_streams_functions

    rng = ctx.rng
    if ctx.shard == 0:
        _catalogue_consistency(ctx)
    _catalogue_isolation(ctx)   # before the round trips: they use a fresh default container
    _container_in_use_is_extended(ctx)
    cat = _items_catalogue()
    SF = StreamsFunctions()
    per_fn = 240 if ctx.quick else 12000
    _equal_values_of_other_kinds(ctx, SF, 6)
    stats = set()
    fns = sorted(secs_streams_functions, key=lambda c: (c.stream, c.function))
    for i, cls in enumerate(fns):
        label = f"S{cls.stream}F{cls.function}"
        if cls._data_format is None:
            # header-only: empty body, found by S/F
            if ctx.mine(i):
                try:
                    dec = SF.decode(_message(cls.stream, cls.function, cls._is_reply_required, cls().encode()))
                    if type(dec) is not cls or cls().encode() != b"" or dec.get() is not None:
                        ctx.violation("header-only-function-roundtrip", {"function": label})
                except Exception as exc:
                    ctx.violation(f"roundtrip-raises:{type(exc).__name__}", {"function": label, "error": repr(exc)[:200]})
            continue
        ast = parse_shipped(cls._data_format)
        ctx.count("functions.with_structure_covered")
        for rep in range(per_fn):
            if not ctx.mine(i * per_fn + rep):
                continue
            tree, typed, plain, expected = build(ast, cat, rng, stats)
            _typed_case(ctx, cls, SF, tree, typed, expected, label)
            if plain is not None and rep % 2 == 0:
                _plain_case(ctx, cls, SF, plain, expected, label)
            if rep % 6 == 1:
                # plain Python floats (doubles, as a rule not exact in single precision) wherever the structure allows F8
                tree2, _, plain2, expected2 = build(ast, cat, rng, stats, prefer="F8")
                if plain2 is not None and "F8" in gen.describe(tree2):
                    ctx.count("oracle.plain_double_roundtrip")
                    _plain_case(ctx, cls, SF, plain2, expected2, label)
            if rep == 0 and i < 3:
                ctx.sample({"function": label, "tree": gen.describe(tree), "body": e5ref.encode(tree)[:40]})
    _equal_values_of_other_kinds(ctx, SF, 20 if ctx.quick else 2000)
    ctx.count("alternatives.covered", len(stats))
