"""C11 - the GEM control state follows the E30 control model for every operator / host history.

A real GemEquipmentHandler (COMMUNICATING over the in-memory connection) in every initial configuration, with
a scripted host that answers the attempt-online probe with S1F2 / S1F0 / not at all, receives random histories
of operator switches and host requests S1F15 / S1F17. A reference E30 control model (own transition table,
remembered LOCAL/REMOTE sub-state) predicts the state, the ONLACK / OFLACK codes, the control-state collection
events (when enabled) and the control-state status variable.
"""

from __future__ import annotations

import itertools
import threading

from lib import e5ref, gen, stuck, vtime, wire

PROPERTY = "C11"
LEVEL = "exploration"
RULE = ("all initial configurations (EQUIPMENT_OFFLINE, ATTEMPT_ONLINE, HOST_OFFLINE, ONLINE x LOCAL/REMOTE) x probe answer "
        "(S1F2, S1F0, none) x event reports enabled or not, each with random histories (<= 25 events, thorough <= 80) over "
        "{switch_online, switch_offline, switch_online_local, switch_online_remote, S1F15, S1F17, S1F3[1002], S1F17 and S1F3 "
        "while the equipment's own S1F1 is outstanding (ATTEMPT ON-LINE)}; distinct by "
        "(configuration, event sequence); non-trivial when at least two model transitions were taken; plus: in half of the runs with event reports a further report is linked to the already enabled events")
ASSUMPTIONS = ["after a failed attempt-online the model accepts EQUIPMENT OFF-LINE or HOST OFF-LINE (E30 lets the equipment choose)",
               "S1F15 received while already OFF-LINE: S1F16(0) or S1F0", "an operator request with no transition in the E30 table may "
               "raise or be a silent no-op: only 'state unchanged, nothing emitted' is checked; a LOCAL/REMOTE switch made while "
               "not ON-LINE is remembered only if the call did not raise (both readings accepted if it returned silently)",
               "event emission on transition 12 (HOST OFF-LINE -> EQUIPMENT OFF-LINE) is not judged",
               "order among S6F11 of different transitions is not checked"]
LEVEL_TEXT = ("Runtime monitoring of the real equipment handler against a reference E30 control model; the configuration matrix "
              "is enumerated, histories are sampled.")
LEVEL_NOTE = "Histories sampled; the model is the E30 transition table written out in the check."
TECHNIQUE = "runtime reference-model monitor (E30 control state) over generated operator/host histories"
SHARDS = {"quick": 8, "thorough": 16}
TIMEOUT = {"quick": 400, "thorough": 3400}
FLOORS = {"transition.3": 10, "transition.4": 5, "transition.5": 10, "transition.6": 10, "transition.8": 5, "transition.9": 5,
          "transition.10": 10, "transition.11": 10, "transition.12": 3, "oracle.ack_codes": 100, "oracle.events_checked": 50,
          "oracle.sv1002": 50, "oracle.requests_during_attempt_online": 5}

EO, AO, HO, OL, OR = "EQUIPMENT_OFFLINE", "ATTEMPT_ONLINE", "HOST_OFFLINE", "ONLINE_LOCAL", "ONLINE_REMOTE"
CODE = {EO: 1, AO: 2, HO: 3, OL: 4, OR: 5}


class Run:
    def __init__(self, ctx, initial, sub, probe, events_enabled):
        from lib.gemrig import GemRig

        self.ctx = ctx
        self.cfg = {"initial": initial, "online_sub": sub, "probe_answer": probe, "events_enabled": events_enabled}
        self.rig = GemRig(role="equipment", t3=0.25 if probe == "none" else 3.0,
                          handler_kw={"initial_control_state": initial, "initial_online_control_state": sub})
        self.h = self.rig.handler
        if probe == "s1f0":
            self.rig.auto_policy[(1, 1)] = lambda f: (1, 0, b"")
        elif probe == "none":
            self.rig.auto_policy[(1, 1)] = lambda f: None
        self.ok = self.rig.establish()
        self.sysgen = gen.system_bytes(ctx.rng, 0x60000000 + ctx.rng.randrange(1 << 16) * 512, p=0.04)
        self.hist = []
        self.bad = False
        self.transitions = 0
        self.remembered = {sub}      # admissible values of the remembered LOCAL/REMOTE switch
        # model state after construction
        if initial == "ONLINE":
            self.state = {OL if sub == "LOCAL" else OR}
        elif initial == "ATTEMPT_ONLINE":
            self.state = {HO, EO}    # the attempt at construction time cannot succeed (communication not established yet)
        else:
            self.state = {initial}
        self.seen_events = 0
        if self.ok and events_enabled:
            self.setup_events()
        self.sync("construction")

    # ------------------------------------------------------------------ plumbing
    def wit(self, **kw):
        return {"config": self.cfg, "history": self.hist[-14:], "model_states": sorted(self.state), "real_state": self.real, **kw}

    def violation(self, mech, **kw):
        self.ctx.violation(mech, self.wit(**kw))
        self.bad = True

    @property
    def real(self):
        return self.h.control_state.current.name

    def request(self, s, f, body):
        system = next(self.sysgen)
        n0 = self.rig.n_frames()
        self.rig.inject(s, f, True, body, system)
        self.rig.wait(lambda: any(fr.system == system for _, fr in self.rig.data_frames(n0)), 3.0)
        got = [fr for _, fr in self.rig.data_frames(n0) if fr.system == system]
        if len(got) != 1:
            if not got:
                self.rig.confirm_absent(lambda: any(fr.system == system for _, fr in self.rig.data_frames(n0)), 0.4)
                got = [fr for _, fr in self.rig.data_frames(n0) if fr.system == system]
            if len(got) != 1:
                self.violation(f"S{s}F{f}-not-answered-once", replies=[g.describe() for g in got])
                return None
        return got[0]

    def setup_events(self):
        u4 = lambda x: ("U4", [x])
        self.request(2, 33, e5ref.encode(("L", [u4(1), ("L", [("L", [u4(1), ("L", [u4(1002)])])])])))
        self.request(2, 35, e5ref.encode(("L", [u4(1), ("L", [("L", [u4(c), ("L", [u4(1)])]) for c in (1, 2, 3)])])))
        fr = self.request(2, 37, e5ref.encode(("L", [("BOOLEAN", [True]), ("L", [])])))
        if fr is None or fr.body != b"\x21\x01\x00":
            self.ctx.unsure("could not enable the control-state collection events")
        elif self.ctx.rng.random() < 0.5:
            # the host links a further report to the (already linked and enabled) events: they stay enabled
            self.request(2, 33, e5ref.encode(("L", [u4(2), ("L", [("L", [u4(2), ("L", [u4(1002)])])])])))
            fr = self.request(2, 35, e5ref.encode(("L", [u4(2), ("L", [("L", [u4(c), ("L", [u4(2)])]) for c in self.ctx.rng.sample((1, 2, 3), 2)])])))
            if fr is not None and fr.body == b"\x21\x01\x00":
                self.ctx.count("events.further_report_linked_after_enable")
        self.rig.quiesce(1.0)
        self.seen_events = len(self.events())

    def events(self):
        out = []
        for _, f in list(self.rig.own_primaries):
            if (f.stream, f.function) == (6, 11):
                try:
                    t = e5ref.decode_all(f.body)
                    out.append(t[1][1][1][0])
                except Exception:
                    out.append("?")
        return out

    def new_events(self):
        ev = self.events()
        new = ev[self.seen_events:]
        self.seen_events = len(ev)
        return new

    def sync(self, where):
        """Compare the real state with the admissible set; narrow the set."""
        if self.bad:
            return
        self.rig.quiesce(1.5)
        st = self.real
        if st not in self.state:
            self.rig.wait(lambda: self.real in self.state, 0.5)
            st = self.real
        if st not in self.state:
            self.violation(f"control-state-differs-from-E30:{where}:model-{'|'.join(sorted(self.state))}:real-{st}")
            self.state = {st}
            return
        self.state = {st}
        if st in (OL, OR):
            self.remembered &= {"LOCAL" if st == OL else "REMOTE"} or self.remembered

    def expect_events(self, want, where):
        """`want`: list of CEIDs the model transition(s) must report (only judged when reports are enabled)."""
        self.rig.quiesce(1.0)
        if want and self.cfg["events_enabled"]:
            self.rig.wait(lambda: len(self.events()) - self.seen_events >= len(want), 1.5)
        got = self.new_events()
        self.ctx.count("oracle.events_checked")
        if not self.cfg["events_enabled"]:
            if got:
                self.violation("control-state-event-reported-although-not-enabled", got=got, after=where)
            return
        if sorted(got) != sorted(want):
            self.violation(f"control-state-events-differ:{where}", got=got, want=want)

    def online_entry(self):
        """Model: entering ON-LINE selects the sub-state from the remembered switch -> (states, events)."""
        states = {OL if r == "LOCAL" else OR for r in self.remembered}
        return states

    def operator(self, name):
        """Run an operator call in its own thread (switch_online blocks inside the probe). Returns 'ok' / 'raised:<type>'."""
        done = threading.Event()
        box = {}

        @stuck.harness_thread
        def run():
            try:
                getattr(self.h, "control_" + name)()
                box["r"] = "ok"
            except Exception as exc:
                box["r"] = f"raised:{type(exc).__name__}"
            done.set()
        th = threading.Thread(target=run, daemon=True)
        th.start()
        if not done.wait(8.0):
            if stuck.blocked_forever([th], watch=0.6):
                self.violation(f"operator-call-blocked-forever:{name}", stacks=stuck.stacks(8))
            else:
                self.ctx.unsure(f"operator call {name} did not return within 8 s")
                self.bad = True
            return None
        return box["r"]

    # ------------------------------------------------------------------ events of the history
    def ev_operator(self, name):
        cur = next(iter(self.state))
        self.hist.append(f"operator {name}")
        res = self.operator(name)
        if res is None:
            return
        before = cur
        want_events = []
        t = None
        if name == "switch_online" and cur == EO:
            t = 3
            if self.cfg["probe_answer"] == "s1f2":
                self.state = self.online_entry()
                self.ctx.count("transition.5")
            else:
                self.state = {HO, EO}
                self.ctx.count("transition.4")
        elif name == "switch_offline" and cur in (OL, OR):
            t = 6
            self.state = {EO}
            want_events = [1]
        elif name == "switch_offline" and cur == HO:
            t = 12
            self.state = {EO}
        elif name == "switch_online_local" and cur == OR:
            t = 8
            self.state = {OL}
            self.remembered = {"LOCAL"}
            want_events = [2]
        elif name == "switch_online_remote" and cur == OL:
            t = 9
            self.state = {OR}
            self.remembered = {"REMOTE"}
            want_events = [3]
        if t is not None:
            self.ctx.count(f"transition.{t}")
            self.transitions += 1
            if res != "ok":
                self.violation(f"E30-transition-{t}-refused:{name}:{res}", state_before=before)
                return
            self.sync(f"operator-{name}")
            if t == 3 and not self.bad and self.real in (OL, OR):
                want_events = [2 if self.real == OL else 3]
            if t == 12:
                self.new_events()          # not judged
            else:
                self.expect_events(want_events, f"transition-{t}")
        else:
            # no transition in the table: may raise or be a no-op, nothing changes, nothing is emitted
            if name in ("switch_online_local", "switch_online_remote") and cur not in (OL, OR) and res == "ok":
                self.remembered = self.remembered | {"LOCAL" if name.endswith("local") else "REMOTE"}
            self.sync(f"operator-{name}-without-transition")
            self.expect_events([], f"operator-{name}-without-transition")

    def ev_s1f15(self):
        cur = next(iter(self.state))
        self.hist.append("host S1F15")
        fr = self.request(1, 15, b"")
        if fr is None:
            return
        self.ctx.count("oracle.ack_codes")
        if cur in (OL, OR):
            self.ctx.count("transition.10")
            self.transitions += 1
            if (fr.stream, fr.function) != (1, 16) or fr.body != b"\x21\x01\x00":
                self.violation("S1F15-while-ONLINE-not-acknowledged-with-OFLACK-0", reply=fr.describe())
                return
            self.state = {HO}
            self.sync("S1F15")
            self.expect_events([1], "transition-10")
        else:
            if not ((fr.stream, fr.function) == (1, 16) and fr.body == b"\x21\x01\x00") and (fr.stream, fr.function) != (1, 0):
                self.violation("S1F15-while-OFFLINE-unexpected-reply", reply=fr.describe())
                return
            self.sync("S1F15-offline")
            self.expect_events([], "S1F15-offline")

    def ev_s1f17(self):
        cur = next(iter(self.state))
        self.hist.append("host S1F17")
        fr = self.request(1, 17, b"")
        if fr is None:
            return
        self.ctx.count("oracle.ack_codes")
        want = 0 if cur == HO else 2 if cur in (OL, OR) else 1
        if (fr.stream, fr.function) != (1, 18) or fr.body != bytes([0x21, 0x01, want]):
            self.violation(f"S1F17-ONLACK-differs:state-{cur}:want-{want}", reply=fr.describe())
            return
        if cur == HO:
            self.ctx.count("transition.11")
            self.transitions += 1
            self.state = self.online_entry()
            self.sync("S1F17")
            if not self.bad:
                self.expect_events([2 if self.real == OL else 3], "transition-11")
        else:
            self.sync("S1F17-no-transition")
            self.expect_events([], "S1F17-no-transition")

    def ev_requests_during_attempt(self):
        """The operator switches on-line; while the equipment's S1F1 is still outstanding (ATTEMPT ON-LINE) the host sends
        S1F17 and asks for the control-state variable; then the peer answers the S1F1 the configured way."""
        from lib.gemrig import ACK_BODIES

        cur = next(iter(self.state))
        if cur != EO or self.cfg["probe_answer"] == "none":
            return
        self.hist.append("operator switch_online; host S1F17 + S1F3[1002] while the S1F1 is outstanding")
        held = []
        old = self.rig.auto_policy.get((1, 1))
        self.rig.auto_policy[(1, 1)] = lambda f: (held.append(f), None)[1]
        done = threading.Event()
        box = {}

        @stuck.harness_thread
        def run():
            try:
                self.h.control_switch_online()
                box["r"] = "ok"
            except Exception as exc:
                box["r"] = f"raised:{type(exc).__name__}"
            done.set()
        th = threading.Thread(target=run, daemon=True)
        th.start()
        try:
            self.rig.wait(lambda: bool(held), 3.0)
            if held and self.real == AO:
                self.ctx.count("oracle.requests_during_attempt_online")
                fr = self.request(1, 17, b"")
                if fr is not None and ((fr.stream, fr.function) != (1, 18) or fr.body != b"\x21\x01\x01"):
                    self.violation("S1F17-ONLACK-differs:state-ATTEMPT_ONLINE:want-1", reply=fr.describe())
                if not self.bad:
                    fr = self.request(1, 3, e5ref.encode(("L", [("U2", [1002])])))
                    want = e5ref.encode(("L", [("B", bytes([CODE[AO]]))]))
                    if fr is not None and (fr.stream, fr.function) != (1, 0) and ((fr.stream, fr.function) != (1, 4) or fr.body != want):
                        self.violation("control-state-SV-differs-from-current-state", reply=fr.describe(), want=want, state=AO)
        finally:
            if old is None:
                self.rig.auto_policy.pop((1, 1), None)
            else:
                self.rig.auto_policy[(1, 1)] = old
            for f in held:
                if self.cfg["probe_answer"] == "s1f2":
                    self.rig.pipe.feed(wire.hsms_data(1, 2, False, f.system, ACK_BODIES[(1, 1)]("equipment")))
                else:
                    self.rig.pipe.feed(wire.hsms_data(1, 0, False, f.system, b""))
        if not done.wait(8.0):
            if stuck.blocked_forever([th], watch=0.6):
                self.violation("operator-call-blocked-forever:switch_online", stacks=stuck.stacks(8))
            else:
                self.ctx.unsure("operator call switch_online did not return within 8 s")
                self.bad = True
            return
        if self.bad:
            return
        self.ctx.count("transition.3")
        self.transitions += 1
        if box.get("r") != "ok":
            self.violation(f"E30-transition-3-refused:switch_online:{box.get('r')}", state_before=cur)
            return
        if self.cfg["probe_answer"] == "s1f2":
            self.state = self.online_entry()
            self.ctx.count("transition.5")
        else:
            self.state = {HO, EO}
            self.ctx.count("transition.4")
        self.sync("operator-switch_online-with-requests-during-the-attempt")
        want_events = [2 if self.real == OL else 3] if (not self.bad and self.real in (OL, OR)) else []
        self.expect_events(want_events, "transition-3")

    def ev_sv(self):
        self.hist.append("host S1F3[1002]")
        fr = self.request(1, 3, e5ref.encode(("L", [("U2", [1002])])))
        if fr is None:
            return
        self.ctx.count("oracle.sv1002")
        cur = next(iter(self.state))
        want = e5ref.encode(("L", [("B", bytes([CODE[cur]]))]))
        if (fr.stream, fr.function) != (1, 4) or fr.body != want:
            self.violation("control-state-SV-differs-from-current-state", reply=fr.describe(), want=want)


def _history(ctx, cfg, length, idx):
    rng = ctx.rng
    run = Run(ctx, *cfg)
    if not run.ok:
        ctx.unsure("precondition failed: the handler did not reach COMMUNICATING with a cooperative peer (C07/C20 judge that)")
        run.rig.shutdown()
        return
    for _ in range(length):
        if run.bad:
            break
        r = rng.random()
        cur = next(iter(run.state))
        if r < 0.50:
            # bias towards requests that have a transition in the current state
            good = {EO: ["switch_online"], HO: ["switch_offline"], OL: ["switch_offline", "switch_online_remote"],
                    OR: ["switch_offline", "switch_online_local"]}.get(cur, [])
            allops = ["switch_online", "switch_offline", "switch_online_local", "switch_online_remote"]
            run.ev_operator(rng.choice(good) if good and rng.random() < 0.7 else rng.choice(allops))
        elif r < 0.56 and cur == EO:
            run.ev_requests_during_attempt()
        elif r < 0.68:
            run.ev_s1f15()
        elif r < 0.88:
            run.ev_s1f17()
        else:
            run.ev_sv()
    ctx.case(("hist", cfg, tuple(run.hist)), nontrivial=run.transitions >= 2)
    if idx < 2:
        ctx.sample({"config": run.cfg, "history": run.hist[:12]})
    run.rig.shutdown()


def run(ctx):
    vtime.install()
    configs = [(i, s, p, e) for i in ("EQUIPMENT_OFFLINE", "ATTEMPT_ONLINE", "HOST_OFFLINE", "ONLINE") for s in ("LOCAL", "REMOTE")
               for p in ("s1f2", "s1f0", "none") for e in (True, False)]
    reps = 1 if ctx.quick else 12
    length = 25 if ctx.quick else 80
    idx = 0
    for rep in range(reps):
        for cfg in configs:
            idx += 1
            if not ctx.mine(idx):
                continue
            _history(ctx, cfg, ctx.rng.randint(8, length), idx)
    ctx.exhaustive["initial_configuration_x_probe_answer_x_events_enabled"] = True
