"""C19 - function structure definitions (SFDL) are read exactly as documented.

A generator emits definitions from the grammar of docs/firststeps/sfdl.md together with the shape the
documentation assigns (several members -> keyed record, one member -> open array, documented key rules).
The shape of the real functions.generate(text) is observed behaviourally: a body conforming to the documented
shape (built by the independent E5 encoder) is decoded and get() must return dicts / lists with the documented
keys.  Mutants (one closing '>' removed, a data item name replaced by a non-item) must raise.
"""

from __future__ import annotations

import inspect

from lib import e5ref, gen, sv

PROPERTY = "C19"
LEVEL = "exploration"
RULE = ("definitions generated from the documented SFDL grammar over the catalogue's data item names (depth <= 5, width "
        "<= 6, optional list names, random whitespace incl. none where legal, '#' comments) plus the shipped definitions; "
        "for each a body with 0-2 elements per open list is built from the documented shape; bracket and name mutants; the 60 "
        "pinned definitions of the known finding (known/c19_named_forms_corpus.json) with their recorded reading; "
        "distinct by definition text; non-trivial when the definition contains at least one list; plus: pairs of definitions that differ only in where the line break ends a comment; names of non-item attributes of the data item package as unknown names; comments ended by a lone CR; definitions placed as _data_format of function classes that derive from a shipped or an own function used before (subclass with its own text, subclass without, parent afterwards)")
ASSUMPTIONS = ["docs/firststeps/sfdl.md is the specification of shapes and key names", "duplicate keys inside one record, "
               "empty lists '<L>' and trailing text are undocumented and not generated", "a comment glued to a token is always followed by "
               "whitespace after its line break (the tokenizer swallows the line break with the comment)"]
LEVEL_TEXT = ("Runtime monitoring of the real parser/generator against a documented-shape model over generated definitions; "
              "the shipped catalogue definitions are enumerated, generated definitions and mutants are sampled.")
LEVEL_NOTE = "The model is the documentation, not the code; shapes are observed through decode()+get() of conforming bodies."
TECHNIQUE = "runtime differential oracle (documented-shape reference model) over grammar-generated definitions and mutants"
SHARDS = {"quick": 8, "thorough": 16}
TIMEOUT = {"quick": 300, "thorough": 3000}
FLOORS = {"oracle.shape": 500, "oracle.missing_bracket": 500, "oracle.unknown_item": 500, "enumerated.shipped_definitions": 100, "oracle.function_class": 300}


def _catalogue():
    from secsgem.secs import data_items as DI
    V = sv.V
    rev = {cls: fmt for fmt, cls in sv.VCLS.items()}
    out = {}
    for name, cls in inspect.getmembers(DI, inspect.isclass):
        if not issubclass(cls, DI.DataItemBase) or cls is DI.DataItemBase:
            continue
        typ = cls.__type__
        allowed = cls.__allowedtypes__ if typ is V.Dynamic else [typ]
        fmts = [rev[t] for t in allowed if t in rev]
        if not fmts:
            continue
        out[name] = (fmts, cls.__count__)
    return out


# ------------------------------------------------------------------ AST:  ("item", NAME) | ("list", name|None, [members])
def gen_def(rng, names, depth, width, allow_names=False):
    """`allow_names`: the node is a member of a record - the only position where the documentation gives a list name
    a meaning (it overrides the member's key).  Names on the top-level list or on the element of an open list are
    undocumented and not generated."""
    if depth <= 0 or rng.random() < 0.35:
        return ("item", rng.choice(names))
    n = rng.choice([1, 1, 2, 3, width]) if rng.random() < 0.8 else rng.randint(1, width)
    name = None
    if allow_names and rng.random() < 0.35:
        name = rng.choice(["REPORTS", "DS", "DV", "SVIDS", "PARAMS", "LINKS", "NAMES", "X1", "data", "Lst", "RPT2"])
    members = []
    used = set()
    for _ in range(n):
        for _try in range(20):
            m = gen_def(rng, names, depth - 1, width, allow_names=n >= 2)
            k = doc_key(m)
            if k not in used:
                used.add(k)
                members.append(m)
                break
    return ("list", name, members)


def doc_key(member):
    """Key of a member inside a record, per the documentation."""
    if member[0] == "item":
        return member[1]
    _, name, members = member
    if name:
        return name
    if len(members) == 1 and members[0][0] == "item":
        return members[0][1]
    return "DATA"


def render(ast, rng, fancy=True):
    """SFDL text with random legal whitespace and comments."""
    def ws(required=False):
        if not fancy:
            return " "
        r = rng.random()
        base = rng.choice([" ", "  ", "\n", "\t", "\r\n", "\n    ", " \t "])
        if r < 0.08:
            return base + "# " + rng.choice(["comment", "a <b> c", "> L <", "x # y", ""]) + rng.choice(["\n", "\r\n", "\n  ", "\r", "\r "])
        if r < 0.11:
            # a comment glued to the preceding token ("Comments start with a # and end with the line break"); the line break
            # itself is swallowed with the comment, so whitespace follows before the next token
            return "#" + rng.choice(["", " glued", "<x>"]) + rng.choice(["\n ", "\r\n\t", "\n  ", "\r "])
        if r < 0.35 and not required:
            return ""
        return base

    def go(node):
        if node[0] == "item":
            return "<" + ws() + node[1] + ws() + ">"
        _, name, members = node
        s = "<" + ws() + "L"
        if name:
            s += ws(True) + name
            s += ws(False)
        else:
            s += ws(False)
        for m in members:
            s += go(m) + ws()
        return s + ">"
    return ws() + go(ast) + ws()


def supported_subset(ast, _parent_named=False):
    """True if every named list is of one of the two forms the catalogue relies on (see DESIGN.md section 4 #14)."""
    if ast[0] == "item":
        return True
    _, name, members = ast
    if name:
        lists = [m for m in members if m[0] == "list"]
        form_a = len(members) >= 2 and members[0][0] == "item" and all(m[1] for m in lists)
        form_b = (len(members) == 1 and members[0][0] == "list" and not members[0][1] and len(members[0][2]) >= 2
                  and members[0][2][0][0] == "item")
        if not (form_a or form_b):
            return False
    return all(supported_subset(m) for m in members)


def has_list(ast):
    return ast[0] == "list"


def build(ast, cat, rng):
    """(tree, expected get()) for a body conforming to the documented shape."""
    if ast[0] == "item":
        fmts, count = cat[ast[1]]
        fmt = fmts[0]
        n = 1 if count <= 0 else min(1, count)
        if fmt in ("A", "J", "B") and rng.random() < 0.5:
            n = 2 if count <= 0 or count >= 2 else n
        leaf = gen.leaf(rng, fmt, n=n)
        return leaf, sv.expected_get(leaf)
    _, name, members = ast
    if len(members) == 1:
        k = rng.choice([0, 1, 2])
        built = [build(members[0], cat, rng) for _ in range(k)]
        return ("L", [b[0] for b in built]), [b[1] for b in built]
    built = [build(m, cat, rng) for m in members]
    return ("L", [b[0] for b in built]), {doc_key(m): b[1] for m, b in zip(members, built)}


def parse_shipped(text):
    """Independent mini-parser for the shipped definitions -> AST (tokens: < > L NAME, # comments)."""
    toks = []
    for line in text.splitlines():
        line = line.split("#", 1)[0]
        cur = ""
        for ch in line:
            if ch in "<>":
                if cur:
                    toks.append(cur)
                    cur = ""
                toks.append(ch)
            elif ch.isspace():
                if cur:
                    toks.append(cur)
                    cur = ""
            else:
                cur += ch
        if cur:
            toks.append(cur)
    pos = 0

    def node():
        nonlocal pos
        assert toks[pos] == "<"
        pos += 1
        t = toks[pos]
        pos += 1
        if t != "L":
            assert toks[pos] == ">"
            pos += 1
            return ("item", t)
        name = None
        if toks[pos] not in "<>":
            name = toks[pos]
            pos += 1
        members = []
        while toks[pos] != ">":
            members.append(node())
        pos += 1
        return ("list", name, members)
    ast = node()
    assert pos == len(toks)
    return ast


def _shape_case(ctx, G, ast, text, cat, label):
    rng = ctx.rng
    ctx.case(text, nontrivial=has_list(ast))
    ctx.count("oracle.shape")
    within = supported_subset(ast)
    ctx.count("defs.within_supported_named_forms" if within else "defs.with_other_named_forms")
    known = "sfdl-named-list-outside-supported-forms"
    wit = {"definition": " ".join(text.split())[:500], "ast_named_forms_supported": within}
    try:
        obj = G.generate(text)
    except Exception as exc:
        ctx.violation(f"valid-definition-rejected:{type(exc).__name__}" if within else known, {**wit, "error": repr(exc)[:300]})
        return
    for rep in range(2):
        tree, expected = build(ast, cat, rng)
        body = e5ref.encode(tree)
        try:
            target = G.generate(text)
            pos = target.decode(body)
            got = target.get()
        except Exception as exc:
            ctx.violation("documented-shape-body-not-decodable" if within else known,
                          {**wit, "body_tree": gen.describe(tree), "error": repr(exc)[:300]})
            return
        if pos != len(body) or not sv.same_value(got, expected):
            ctx.violation("shape-or-keys-differ-from-documentation" if within else known,
                          {**wit, "expected_get": expected, "got": got})
            return


CORPUS = __import__("os").path.join(__import__("os").path.dirname(__import__("os").path.dirname(__import__("os").path.abspath(__file__))),
                                     "known", "c19_named_forms_corpus.json")


def canonical(ast):
    if ast[0] == "item":
        return f"< {ast[1]} >"
    return "< L " + (ast[1] + " " if ast[1] else "") + " ".join(canonical(m) for m in ast[2]) + " >"


def behaviour(G, text, ast, cat):
    """What the library observably does with `text` for three fixed bodies of the documented shape:
    (signature, as_documented). The signature is what the committed corpus of the known finding records."""
    import json
    import random

    from lib.run import jsonable

    sig = []
    documented = True
    for k in range(3):
        rng = random.Random(f"{text}|{k}")
        tree, expected = build(ast, cat, rng)
        body = e5ref.encode(tree)
        try:
            target = G.generate(text)
            pos = target.decode(body)
            got = target.get()
        except Exception as exc:
            sig.append(["raises", type(exc).__name__])
            documented = False
            continue
        sig.append(["value", pos == len(body), json.dumps(jsonable(got), sort_keys=False)[:1500]])
        if pos != len(body) or not sv.same_value(got, expected):
            documented = False
    return sig, documented


def _known_corpus(ctx, G, cat):
    """The known finding, pinned to specific definitions: each entry of the committed corpus records how the library read
    that definition when the finding was recorded. Same behaviour -> KNOWN-FINDING; documented behaviour -> repaired;
    anything else is a different violation of the property and is reported."""
    import json

    try:
        with open(CORPUS) as fh:
            corpus = json.load(fh)["entries"]
    except OSError:
        ctx.unsure("the corpus of the known SFDL finding is missing")
        return
    for i, entry in enumerate(corpus):
        if not ctx.mine(i):
            continue
        text = entry["definition"]
        ast = parse_shipped(text)
        ctx.count("known_corpus.definitions")
        ctx.case(("corpus", text), nontrivial=True)
        sig, documented = behaviour(G, text, ast, cat)
        wit = {"definition": text, "recorded": entry["behaviour"], "observed": sig}
        if documented:
            ctx.count("known_corpus.now_read_as_documented")
        elif sig == entry["behaviour"]:
            ctx.violation("sfdl-named-list-outside-supported-forms", wit)
        else:
            ctx.violation("sfdl-named-list:known-deviation-replaced-by-a-different-one", wit)


_MODULE_NAMES: list = []


def _twins(ctx, G, cat, rng, names, n):
    """Two definitions that differ only in where the line break ends a comment (so a member is commented out in one of them):
    same text after whitespace normalisation, different structure. Each must be read on its own, in either order."""
    for i in range(n):
        items = rng.sample(names, 4)
        note = rng.choice(["note", "x", "was:", "todo -"])
        outer_open = rng.random() < 0.5
        def text(commented):
            # "< L <A> # note <B>\n <C> <D> >"  vs  "< L <A> # note\n <B> <C> <D> >"
            a, b, c, d = (f"< {x} >" for x in items)
            body = f"{a} # {note} {b}\n {c} {d}" if commented else f"{a} # {note}\n {b} {c} {d}"
            return f"< L {body} >"
        full = ("list", None, [("item", x) for x in items])
        reduced = ("list", None, [("item", x) for x in (items[0], items[2], items[3])])
        pair = [(text(False), full), (text(True), reduced)]
        if i % 2:
            pair.reverse()
        for t, ast in pair:
            ctx.count("oracle.comment_twins")
            _shape_case(ctx, G, ast, t, cat, "twin")



def _mutants(ctx, G, ast, rng, names_set):
    text = render(ast, rng, fancy=False)
    # structural '>' positions (no comments in this rendering)
    closes = [i for i, ch in enumerate(text) if ch == ">"]
    k = rng.choice(closes)
    bad = text[:k] + text[k + 1:]
    ctx.case(("missing", bad))
    ctx.count("oracle.missing_bracket")
    try:
        G.generate(bad)
        ctx.violation("missing-closing-bracket-accepted", {"definition": bad[:400], "from": text[:400]})
    except Exception:
        pass
    # replace one data item name by an identifier that is not a data item
    items = []

    def walk(n):
        if n[0] == "item":
            items.append(n)
        else:
            for m in n[2]:
                walk(m)
    walk(ast)
    if items:
        victim = rng.choice(items)
        bogus = rng.choice(["FOO", "SVIDX", "svid", "Mdln", "L2", "LL", "DATA", "XYZZY", "A", "U4", "ITEM1"] + _MODULE_NAMES)
        if bogus in names_set or (bogus == bogus.lower() and bogus.upper() in names_set):
            return      # (the all-lower-case spelling of an item name is the name of its module in the package and is read as the item)
        marker = "\x00"
        done = [False]

        def rend(n):
            if n is victim and not done[0]:
                done[0] = True
                return f"< {bogus} >"
            if n[0] == "item":
                return f"< {n[1]} >"
            return "< L " + (n[1] + " " if n[1] else "") + " ".join(rend(m) for m in n[2]) + " >"
        bad = rend(ast)
        ctx.case(("unknown", bad))
        ctx.count("oracle.unknown_item")
        try:
            G.generate(bad)
            ctx.violation("unknown-data-item-accepted", {"definition": bad[:400], "bogus": bogus})
        except Exception:
            pass


def _function_class_case(ctx, G, cat, rng, names, shipped):
    """A definition is read where applications put it: as `_data_format` of a function class.  The class may derive from
    another function (a shipped one, or the application's own) that was used before; each class is read by its own text."""
    from secsgem.secs.functions.base import SecsStreamFunction

    def supported_def():
        for _ in range(50):
            ast = gen_def(rng, names, rng.choice([1, 2, 3]), rng.choice([2, 3]))
            if supported_subset(ast):
                return ast, render(ast, rng, fancy=rng.random() < 0.5)
        return None, None

    def judge(cls, ast, text, who):
        ctx.count("oracle.function_class")
        tree, expected = build(ast, cat, rng)
        body = e5ref.encode(tree)
        wit = {"class": who, "definition": " ".join(text.split())[:400], "body_tree": gen.describe(tree)}
        try:
            obj = cls()
            obj.decode(body)
            got = obj.get()
        except Exception as exc:
            ctx.violation(f"function-class-body-not-decodable:{who}", {**wit, "error": repr(exc)[:300]})
            return False
        if not sv.same_value(got, expected):
            ctx.violation(f"function-class-shape-differs-from-its-definition:{who}", {**wit, "expected_get": expected, "got": got})
            return False
        try:
            if cls.get_format() != G.get_format(text):
                ctx.violation(f"function-class-format-text-differs:{who}", {**wit, "class_format": str(cls.get_format())[:300],
                                                                          "definition_format": str(G.get_format(text))[:300]})
                return False
        except Exception as exc:
            ctx.violation(f"function-class-format-raises:{who}", {**wit, "error": repr(exc)[:300]})
            return False
        return True

    ast1, text1 = supported_def()
    ast2, text2 = supported_def()
    if ast1 is None or ast2 is None:
        return
    if shipped and rng.random() < 0.4:
        parent = rng.choice(shipped)
        try:
            ast1, text1 = parse_shipped(parent._data_format), parent._data_format
        except Exception:
            return
        if not supported_subset(ast1):
            return
    else:
        parent = type("SecsS99F01", (SecsStreamFunction,), {"_stream": 99, "_function": 1, "_data_format": text1,
                                                            "_to_host": True, "_to_equipment": True})
    order = rng.choice(["parent-first", "child-first", "parent-format-first"])
    child = type("CustomFunction", (parent,), {"_data_format": text2})
    ok = True
    if order == "parent-first":
        ok = judge(parent, ast1, text1, "parent")
    elif order == "parent-format-first":
        parent.get_format()
    ok = ok and judge(child, ast2, text2, "subclass-with-its-own-definition:" + order)
    ok = ok and judge(parent, ast1, text1, "parent-after-subclass")
    # a second subclass without a definition of its own reads the parent's
    heir = type("Heir", (parent,), {})
    ok and judge(heir, ast1, text1, "subclass-without-definition")
    # a class whose definition is malformed is rejected whenever it is used, not only the first time
    stripped = render(ast2, rng, fancy=False).rstrip()        # (no comments: the last character is the last closing bracket)
    if rng.random() < 0.5 and stripped.endswith(">"):
        bad_text, what = stripped[:-1], "missing_bracket"
    else:
        import re

        def items_of(node):
            return [node[1]] if node[0] == "item" else [n for m in node[2] for n in items_of(m)]
        first_item = rng.choice(items_of(ast2))
        # (whole word only: a list may carry a name that contains an item name, e.g. SVIDS)
        bad_text, nsub = re.subn(r"(?<![A-Za-z0-9_])" + re.escape(first_item) + r"(?![A-Za-z0-9_])", "NOSUCHITEM", stripped, count=1)
        what = "unknown_item"
        if nsub != 1:
            return
    bad_parent = parent if rng.random() < 0.5 else SecsStreamFunction
    broken = type("Broken", (bad_parent,), {"_stream": 99, "_function": 3, "_data_format": bad_text})
    for use in range(3):
        ctx.count("oracle.malformed_function_class_uses")
        for how, call in (("instantiate", lambda: broken()), ("get_format", lambda: broken.get_format())):
            try:
                call()
            except Exception:
                continue
            ctx.violation(f"malformed-definition-accepted-by-function-class:{what}:{how}:use-{use + 1}",
                          {"definition": " ".join(bad_text.split())[:400], "derived_from": bad_parent.__name__})
            return


def run(ctx):
    from secsgem.secs.functions._all import secs_streams_functions
    from secsgem.secs.variables import functions as G

    rng = ctx.rng
    cat = _catalogue()
    names = sorted(cat)
    DI = __import__("secsgem.secs.data_items", fromlist=["x"])
    # the data item names are exactly the item classes of the package; everything else the package namespace contains (sub-modules,
    # base classes, dunder attributes) is an *unknown data item name* like any other word
    names_set = set(names) | {n for n, c in inspect.getmembers(DI, inspect.isclass) if issubclass(c, DI.DataItemBase) and c is not DI.DataItemBase}
    _MODULE_NAMES[:] = sorted(n for n in dir(DI) if n not in names_set and n.upper() not in names_set)[:40]
    # the shipped definitions (enumerated)
    for i, f in enumerate(sorted(secs_streams_functions, key=lambda c: (c.stream, c.function))):
        if f._data_format is None or not isinstance(f._data_format, str):
            continue
        if not ctx.mine(i):
            ctx.count("enumerated.shipped_definitions")
            continue
        try:
            ast = parse_shipped(f._data_format)
        except Exception as exc:
            ctx.unsure(f"reference parser failed on shipped definition S{f.stream}F{f.function}: {exc!r}")
            continue
        _shape_case(ctx, G, ast, f._data_format, cat, f"S{f.stream}F{f.function}")
        _mutants(ctx, G, ast, rng, names_set)
        ctx.count("enumerated.shipped_definitions")
    ctx.exhaustive["shipped_definitions"] = True
    _known_corpus(ctx, G, cat)
    shipped = [f for f in sorted(secs_streams_functions, key=lambda c: (c.stream, c.function)) if isinstance(f._data_format, str)]
    for _ in range(60 if ctx.quick else 6000):
        _function_class_case(ctx, G, cat, rng, names, shipped)
    _twins(ctx, G, cat, rng, names, 30 if ctx.quick else 3000)
    n = 700 if ctx.quick else 250000
    for i in range(n):
        ast = gen_def(rng, names, rng.choice([1, 2, 3, 5]), rng.choice([2, 3, 6]))
        text = render(ast, rng, fancy=True)
        _shape_case(ctx, G, ast, text, cat, "generated")
        if i < 2:
            ctx.sample({"definition": " ".join(text.split())[:300], "documented_shape_keys": doc_key(ast)})
        _mutants(ctx, G, ast, rng, names_set)
