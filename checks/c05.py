"""C05 - the HSMS session follows the E37 connect/select state model for every history.

A real HsmsProtocol (passive or active) runs over the in-memory connection; random histories of transport and
message events are injected; a reference E37 machine predicts the session state, the response to every control
request and the delivery / rejection of every data message.  A second part races the transport-level connect
against an already in-flight Select.req under seeded yield injection.
"""

from __future__ import annotations

import itertools
import threading
import time

from lib import gen, sched, stuck, vtime, wire

PROPERTY = "C05"
LEVEL = "exploration"
RULE = ("random histories (<= 12 events, thorough <= 40) over {connect, peer close, local disable+enable, Select/Deselect/"
        "Linktest/Separate/Reject control messages, responses with matching and non-matching system bytes, data messages "
        "with/without W-bit (catalogued header-only, uncatalogued, undecodable body), a link lost inside an inbound frame, "
        "linktest timer expiry} in passive "
        "and active mode (own Select.req answered, answered with a foreign system, left to T6), plus connect-vs-inbound "
        "Select.req races under yield injection; distinct by (mode, event sequence | race schedule seed); non-trivial "
        "when at least one message was injected while connected; plus: bursts of 300-1100 Linktest.req in one segment; a link lost inside a frame that sits behind a complete message in the same segment; requests of the application that end with T3, their system bytes then carried by an inbound message")
ASSUMPTIONS = ["select status codes are not judged (only that a response of the matching type with the request's system bytes "
               "is sent)", "unsolicited or non-matching *.rsp frames: only 'no crash, state stays legal' is demanded and the "
               "model is resynchronised from the observed state", "after Separate.req both NOT SELECTED and NOT CONNECTED are "
               "accepted", "an unanswered own Select.req (T6) may leave NOT SELECTED or NOT CONNECTED", "T7 is not modelled"]
LEVEL_TEXT = ("Runtime monitoring of the real protocol object against a reference E37 session machine over sampled histories; "
              "the racing pair connect/Select.req is explored with seeded yield injection (distinct interleavings counted).")
LEVEL_NOTE = "Histories and schedules are sampled; the reference machine is written from E37, not from the code."
TECHNIQUE = "runtime reference-model monitor (E37 session) over generated histories + yield-injected connect/receive race"
SHARDS = {"quick": 8, "thorough": 16}
TIMEOUT = {"quick": 400, "thorough": 3400}
FLOORS = {"requests_ended_by_T3": 3, "oracle.control_request_answered": 300, "oracle.data_rejected_when_not_selected": 60,
          "oracle.data_delivered_when_selected": 60, "oracle.state_samples": 1500, "race.rounds": 20,
          "histories.passive": 30, "histories.active": 30, "oracle.reply_routing_vs_selected_state": 20,
          "link_lost_inside_a_frame": 20}

NC, NS, SEL = "NOT_CONNECTED", "CONNECTED_NOT_SELECTED", "CONNECTED_SELECTED"
REQ_RSP = {wire.SELECT_REQ: wire.SELECT_RSP, wire.DESELECT_REQ: wire.DESELECT_RSP, wire.LINKTEST_REQ: wire.LINKTEST_RSP}


class Run:
    def __init__(self, ctx, active, t6):
        from lib.hsmsrig import Rig

        self.ctx = ctx
        self.active = active
        self.rig = Rig(active=active, t6=t6, t3=1.0)
        self.open_req = None
        self.stale_systems = []    # system bytes of requests that ended without a reply
        self.model = {NC}          # set of admissible states
        self.hist = []
        self.sysgen = gen.system_bytes(ctx.rng, 0x10000 + ctx.rng.randrange(1 << 20) * 16)
        self.seen = 0              # index into all_frames()
        self.seen_delivered = 0
        self.injected_connected = 0
        self.bad = False

    # ---- observation helpers
    def new_frames(self):
        allf = self.rig.pipe.all_frames()
        new = allf[self.seen:]
        self.seen = len(allf)
        return [f for _, f in new]

    def peek_frames(self):
        return [f for _, f in self.rig.pipe.all_frames()[self.seen:]]

    def new_delivered(self):
        d = self.rig.delivered[self.seen_delivered:]
        self.seen_delivered = len(self.rig.delivered)
        return d

    def wit(self, **kw):
        return {"mode": "active" if self.active else "passive", "history": self.hist[-14:], "model_states": sorted(self.model),
                "real_state": self.rig.state, **kw}

    def violation(self, mech, **kw):
        self.ctx.violation(mech, self.wit(**kw))
        self.bad = True

    def check_state(self, where):
        self.ctx.count("oracle.state_samples")
        st = self.rig.state
        if st not in self.model:
            # grace: transitions run on other threads; re-sample once idle
            if not self.rig.wait(lambda: self.rig.state in self.model, timeout=1.0):
                self.rig.confirm_absent(lambda: self.rig.state in self.model)    # wall-clock grace, only paid on suspicious cases
            st = self.rig.state
        if st not in self.model:
            self.violation(f"state-differs-from-E37:{where}:model-{'|'.join(sorted(self.model))}:real-{st}")
            self.model = {st}
        elif len(self.model) > 1:
            self.model = {st}

    @property
    def connected(self):
        return self.model != {NC}

    # ---- events
    def ev_connect(self, select_answer):
        self.hist.append(f"connect({select_answer})" if self.active else "connect")
        self.rig.pipe.connect()
        self.model = {NS}
        if self.active:
            ok = self.rig.wait(lambda: any(f.stype == wire.SELECT_REQ for f in self.peek_frames()), 3.0)
            frames = self.new_frames()
            reqs = [f for f in frames if f.stype == wire.SELECT_REQ]
            if len(reqs) != 1:
                self.violation("active-connect-without-single-select-req", frames=[f.describe() for f in frames])
                return
            req = reqs[0]
            if select_answer == "match":
                self.rig.pipe.feed(wire.hsms_control(wire.SELECT_RSP, req.system))
                self.model = {SEL}
                self.rig.wait(lambda: self.rig.state == SEL, 3.0)
            elif select_answer == "foreign":
                self.rig.pipe.feed(wire.hsms_control(wire.SELECT_RSP, (req.system + 77) & 0xFFFFFFFF))
                # barrier: messages are dispatched in order, so once the Linktest.rsp is out the Select.rsp before it has been
                # handled and the state that is sampled next is final (not "not handled yet")
                self.barrier()
                self.rig.quiesce(2.0)
                self.new_frames()
                self.model = {NS, SEL}   # E37 leaves the reaction to an unsolicited response open
                self.ctx.count("lenient.foreign_select_rsp")
            else:
                time.sleep(float(self.rig.settings.timeouts.t6) + 0.1)   # let T6 of the own request expire
                self.rig.quiesce(2.0)
                self.model = {NS, NC}
        else:
            self.rig.quiesce(2.0)
        self.check_state("connect")

    def feed_partial_frame(self):
        """The link goes away in the middle of an inbound message: a proper prefix (length field complete or not)."""
        rng = self.ctx.rng
        frame = wire.hsms_data(1, 1, True, next(self.sysgen), rng.randbytes(rng.choice([0, 30, 300])))
        cut = rng.choice([1, 3, 4, 5, 13, 14, len(frame) - 1, rng.randint(1, len(frame) - 1)])
        cut = max(1, min(cut, len(frame) - 1))
        self.hist.append(f"partial frame ({cut} of {len(frame)} bytes)")
        if rng.random() < 0.5:
            # in the same segment as a complete message (the partial frame sits behind consumed bytes in the receive buffer)
            system = next(self.sysgen)
            self.hist[-1] += f" behind a complete Linktest.req({system:#x}) in one segment"
            self.rig.pipe.feed(wire.hsms_control(wire.LINKTEST_REQ, system) + frame[:cut])
            self.injected_connected += 1
            self.rig.wait(lambda: any(f.system == system for f in self.peek_frames()), 3.0)
        else:
            self.rig.pipe.feed(frame[:cut])
        self.rig.quiesce(0.5)
        self.ctx.count("link_lost_inside_a_frame")

    def barrier(self):
        """Messages are dispatched in arrival order by one thread: once the response to this Linktest.req is out (or the link
        is gone) everything fed before it has been handled, so a state sampled afterwards is final."""
        system = next(self.sysgen)
        self.rig.pipe.feed(wire.hsms_control(wire.LINKTEST_REQ, system))

        def through():
            return not self.rig.pipe.link_up or any(f.system == system for f in self.peek_frames())
        if not self.rig.wait(through, 3.0):
            self.rig.confirm_absent(through)

    def ev_peer_close(self):
        self.open_req = None
        if self.connected and self.ctx.rng.random() < 0.4:
            self.feed_partial_frame()
        self.hist.append("peer_close")
        self.rig.pipe.peer_close()
        if not self.rig.pipe.wait_closed(5.0):
            self.ctx.count("close_sequence_did_not_finish")   # C09's business; abandon this history
            self.bad = True
            return
        self.new_frames()
        self.model = {NC}
        self.check_state("peer_close")

    def ev_disable_enable(self):
        self.open_req = None
        if self.connected and self.ctx.rng.random() < 0.3:
            self.feed_partial_frame()
        self.hist.append("disable+enable")
        done = threading.Event()

        @stuck.harness_thread
        def run():
            self.rig.protocol.disable()
            self.rig.protocol.enable()
            done.set()
        threading.Thread(target=run, daemon=True).start()
        if not done.wait(5.0):
            self.ctx.count("disable_did_not_return")
            self.bad = True
            return
        self.new_frames()
        self.model = {NC}
        self.check_state("disable")

    def ev_control_req(self, stype):
        system = next(self.sysgen)
        self.hist.append(f"{wire.STYPE_NAMES[stype]}({system:#x})")
        before = set(self.model)
        self.rig.pipe.feed(wire.hsms_control(stype, system))
        self.injected_connected += 1
        want = REQ_RSP[stype]
        self.rig.wait(lambda: any(f.system == system for f in self.peek_frames()), 3.0)
        self.rig.quiesce(1.0)
        frames = self.new_frames()
        mine = [f for f in frames if f.system == system]
        self.ctx.count("oracle.control_request_answered")
        if len(mine) != 1 or mine[0].stype != want:
            if len(mine) == 0 and self.rig.confirm_absent(lambda: any(f.system == system for f in self.peek_frames()), 0.3) is False:
                mine = [f for f in self.new_frames() if f.system == system]
            if len(mine) != 1 or mine[0].stype != want:
                self.violation(f"control-request-not-answered-once:{wire.STYPE_NAMES[stype]}", answers=[f.describe() for f in mine],
                               all_frames=[f.describe() for f in frames][:6])
        if stype == wire.SELECT_REQ:
            self.model = {SEL}
        elif stype == wire.DESELECT_REQ:
            self.model = {NS}
        self.check_state(wire.STYPE_NAMES[stype])

    def ev_burst(self):
        """Hundreds of requests in one segment: each is answered, in order, and the endpoint keeps working."""
        n = self.ctx.rng.choice([300, 600, 1100])
        base = 0x66000000 + self.ctx.rng.randrange(1 << 12) * 4096
        self.hist.append(f"burst of {n} Linktest.req in one segment")
        self.rig.pipe.feed(b"".join(wire.hsms_control(wire.LINKTEST_REQ, base + i) for i in range(n)))
        self.injected_connected += n
        want = [base + i for i in range(n)]

        def done():
            return sum(1 for f in self.peek_frames() if f.stype == wire.LINKTEST_RSP and base <= f.system < base + n) >= n
        if not self.rig.wait(done, 20.0, min_idle=1.0):
            self.rig.confirm_absent(done)
        frames = self.new_frames()
        got = [f.system for f in frames if f.stype == wire.LINKTEST_RSP and base <= f.system < base + n]
        self.ctx.count("oracle.control_request_answered", n)
        self.ctx.count("oracle.bursts")
        if got != want:
            self.violation("burst-of-linktest-requests-not-answered-one-by-one-in-order", sent=n, answered=len(got),
                           first_difference=next((i for i, (a, b) in enumerate(zip(got, want)) if a != b), min(len(got), len(want))),
                           stacks=stuck.stacks(5) if len(got) < n else None)
            return
        self.check_state("burst")

    def ev_separate(self):
        system = next(self.sysgen)
        self.hist.append(f"Separate.req({system:#x})")
        was = set(self.model)
        self.rig.pipe.feed(wire.hsms_control(wire.SEPARATE_REQ, system))
        self.injected_connected += 1
        self.barrier()
        self.rig.quiesce(1.0)
        self.new_frames()
        if was == {SEL}:
            self.model = {NS, NC}
        self.check_state("Separate.req")
        if self.rig.state == NC and self.rig.pipe.link_up:
            # endpoint decided to drop the link: wait for its close sequence
            self.rig.pipe.wait_closed(2.0)

    def ev_unsolicited_rsp(self, stype):
        system = next(self.sysgen)
        self.hist.append(f"unsolicited {wire.STYPE_NAMES[stype]}({system:#x})")
        self.rig.pipe.feed(wire.hsms_control(stype, system, byte3=self.ctx.rng.choice([0, 0, 1, 4])))
        self.injected_connected += 1
        self.barrier()
        self.rig.quiesce(1.0)
        self.new_frames()
        self.ctx.count("lenient.unsolicited_response")
        st = self.rig.state
        if st not in (NS, SEL):
            self.violation(f"illegal-state-after-unsolicited-response:{st}")
        self.model = {st}

    def ev_data(self, kind, wbit):
        from checks.c04 import _header_only

        rng = self.ctx.rng
        system = next(self.sysgen)
        if self.stale_systems and rng.random() < 0.9:
            # a message that carries the system bytes of an earlier request that nobody answered: a message like any other
            system = self.stale_systems.pop()
            self.ctx.count("oracle.data_with_system_bytes_of_a_timed_out_request")
        if kind == "header_only":
            s, f = rng.choice(_header_only())
            body = rng.choice([b"", b"", rng.randbytes(rng.randint(1, 20))])
        elif kind == "uncatalogued":
            s, f = rng.choice([(99, 1), (64, 3), (1, 99), (127, 255), (3, 21)])
            body = rng.choice([b"", b"\x21\x01\x05"])
        else:  # catalogued function with a body that does not fit its structure
            s, f = rng.choice([(1, 3), (2, 33), (6, 11), (5, 1)])
            body = rng.choice([b"\xa5\x01", b"\x41\x03abc", b"\x01", rng.randbytes(5)])
        self.hist.append(f"data {kind} S{s}F{f}{'W' if wbit else ''}({system:#x}) body={body.hex()[:20]}")
        self.rig.pipe.feed(wire.hsms_data(s, f, wbit, system, body, session=rng.choice([0, 0, 0xFFFF, 17])))
        self.injected_connected += 1
        selected = self.model == {SEL}
        if selected:
            self.rig.wait(lambda: any(m["system"] == system for m in self.rig.delivered[self.seen_delivered:]), 3.0)
        else:
            self.rig.wait(lambda: any(f.system == system for f in self.peek_frames()), 3.0)
        self.rig.quiesce(1.0)
        frames = self.new_frames()
        delivered = [m for m in self.new_delivered() if m["system"] == system]
        mine = [f for f in frames if f.system == system]
        if selected:
            self.ctx.count("oracle.data_delivered_when_selected")
            if len(delivered) != 1 or delivered[0]["body"] != body or (delivered[0]["stream"], delivered[0]["function"]) != (s, f):
                if not delivered:
                    self.rig.confirm_absent(lambda: any(m["system"] == system for m in self.rig.delivered[self.seen_delivered:]), 0.3)
                    delivered = [m for m in self.new_delivered() if m["system"] == system]
                if len(delivered) != 1 or delivered[0]["body"] != body:
                    self.violation(f"data-not-delivered-once-in-SELECTED:{kind}", delivered=len(delivered), frames=[f.describe() for f in mine])
            if any(f.stype == wire.REJECT_REQ for f in mine):
                self.violation(f"data-rejected-in-SELECTED:{kind}", frames=[f.describe() for f in mine])
        else:
            self.ctx.count("oracle.data_rejected_when_not_selected")
            if delivered:
                self.violation(f"data-delivered-while-not-selected:{kind}", delivered=len(delivered))
            rej = [f for f in mine if f.stype == wire.REJECT_REQ]
            if len(rej) != 1 or len(mine) != 1 or rej[0].byte3 != 4:
                if not mine:
                    self.rig.confirm_absent(lambda: any(f.system == system for f in self.peek_frames()), 0.3)
                    mine = [f for f in self.new_frames() if f.system == system]
                    rej = [f for f in mine if f.stype == wire.REJECT_REQ]
                if len(rej) != 1 or len(mine) != 1 or rej[0].byte3 != 4:
                    self.violation(f"data-while-not-selected-not-rejected-once:{kind}", frames=[f.describe() for f in mine])
        self.check_state("data")

    def ev_open_request(self):
        """The application has a request outstanding (its reply will be injected by a later event)."""
        import secsgem.secs.functions as F

        if getattr(self, "open_req", None) is not None:
            return
        box = {}
        done = threading.Event()

        @stuck.harness_thread
        def run():
            try:
                box["r"] = self.rig.protocol.send_and_waitfor_response(F.SecsS01F01())
            except Exception as exc:
                box["exc"] = repr(exc)
            done.set()
        n0 = len(self.rig.pipe.all_frames())
        th = threading.Thread(target=run, daemon=True, name="harness-requester")
        th.start()
        self.rig.wait(lambda: any(f.stype == wire.DATA and (f.stream, f.function) == (1, 1) for _, f in self.rig.pipe.all_frames()[n0:]), 2.0)
        reqs = [f for _, f in self.rig.pipe.all_frames()[n0:] if f.stype == wire.DATA and (f.stream, f.function) == (1, 1)]
        self.new_frames()
        if len(reqs) != 1:
            done.wait(3.0)
            return
        self.hist.append(f"app request S1F1W({reqs[0].system:#x}) outstanding")
        self.open_req = {"system": reqs[0].system, "box": box, "done": done}

    def ev_let_request_time_out(self):
        """Nobody answers the outstanding request: it ends with T3. Its system bytes are used by a later inbound message."""
        req = getattr(self, "open_req", None)
        if req is None:
            return
        req["done"].wait(6.0)      # T3 is 1 s in these sessions
        self.open_req = None
        self.rig.quiesce(0.3)
        self.new_frames()
        if req["done"].is_set() and req["box"].get("r") is None and "exc" not in req["box"]:
            self.hist.append(f"request ({req['system']:#x}) ended without reply (T3)")
            self.stale_systems.append(req["system"])
            self.ctx.count("requests_ended_by_T3")

    def ev_reply_to_open_request(self):
        req = getattr(self, "open_req", None)
        if req is None or req["done"].is_set():
            self.open_req = None
            return
        selected = self.model == {SEL}
        system = req["system"]
        self.hist.append(f"reply S1F2({system:#x}) to the outstanding request")
        self.rig.pipe.feed(wire.hsms_data(1, 2, False, system, b"\x01\x00"))
        self.injected_connected += 1
        req["done"].wait(4.0)
        self.rig.quiesce(1.0)
        frames = self.new_frames()
        delivered = [m for m in self.new_delivered() if m["system"] == system]
        box = req["box"]
        self.open_req = None
        got = box.get("r")
        self.ctx.count("oracle.reply_routing_vs_selected_state")
        if "exc" in box:
            self.violation("outstanding-request-raises", error=box["exc"])
            return
        if selected:
            if got is None or got.header.system != system or delivered:
                self.violation("reply-in-SELECTED-not-returned-to-its-requester", returned=got is not None, delivered_to_app=len(delivered))
        else:
            if got is not None or delivered:
                self.violation("data-delivered-while-not-selected:reply-to-outstanding-request", returned=got is not None, delivered_to_app=len(delivered))
                return
            rej = [f for f in frames if f.stype == wire.REJECT_REQ and f.system == system]
            if not rej:
                self.rig.confirm_absent(lambda: any(f.system == system for f in self.peek_frames()))
                frames = frames + self.new_frames()
                rej = [f for f in frames if f.stype == wire.REJECT_REQ and f.system == system]
            if len(rej) != 1 or rej[0].byte3 != 4:
                self.violation("data-while-not-selected-not-rejected-once:reply-to-outstanding-request", frames=[f.describe() for f in frames if f.system == system])

    def ev_linktest_timer(self, answer):
        timers = vtime.pending(kind="_on_linktest_timer", owner=self.rig.protocol)
        if not timers:
            return
        self.hist.append(f"linktest_timer(answer={answer})")
        vtime.fire(timers[0])
        self.rig.wait(lambda: any(f.stype == wire.LINKTEST_REQ for f in self.peek_frames()), 3.0)
        frames = self.new_frames()
        reqs = [f for f in frames if f.stype == wire.LINKTEST_REQ]
        if len(reqs) != 1:
            self.violation("linktest-timer-without-single-linktest-req", frames=[f.describe() for f in frames])
            return
        self.rig.pipe.feed(wire.hsms_control(wire.LINKTEST_RSP, reqs[0].system))
        self.rig.quiesce(1.0)
        self.check_state("linktest_timer")

    def finish(self):
        ok = self.rig.close(5.0)
        if not ok:
            self.ctx.count("final_disable_did_not_return")
        for t in vtime.pending(owner=self.rig.protocol):
            t.cancel()


def _history(ctx, active, length):
    rng = ctx.rng
    unanswered = active and rng.random() < 0.25
    run = Run(ctx, active, t6=0.12 if unanswered else 3.0)
    ctx.count("histories.active" if active else "histories.passive")
    for step in range(length):
        if run.bad:
            break
        if not run.connected:
            ans = rng.choice(["match", "match", "foreign", "none"]) if unanswered else rng.choice(["match", "match", "match", "foreign"])
            run.ev_connect(ans if active else None)
            continue
        if not run.rig.pipe.link_up:
            run.model = {NC}
            continue
        r = rng.random()
        if run.open_req is not None:
            # an application request is outstanding: change the session state under it and/or deliver its reply
            q = rng.random()
            if q < 0.40:
                run.ev_reply_to_open_request()
                continue
            if q < 0.65:
                rng.choice([lambda: run.ev_control_req(wire.DESELECT_REQ), run.ev_separate, lambda: run.ev_control_req(wire.SELECT_REQ)])()
                continue
            if q < 0.77:
                run.ev_let_request_time_out()
                continue
        if run.stale_systems and r < 0.6:
            run.ev_data(rng.choice(["header_only", "uncatalogued"]), rng.random() < 0.5)
            continue
        if r < 0.06:
            run.ev_peer_close()
        elif r < 0.10:
            run.ev_disable_enable()
        elif r < 0.24:
            run.ev_control_req(wire.SELECT_REQ)
        elif r < 0.34:
            run.ev_control_req(wire.DESELECT_REQ)
        elif r < 0.44:
            run.ev_control_req(wire.LINKTEST_REQ)
        elif r < 0.50:
            run.ev_separate()
        elif r < 0.56:
            run.ev_unsolicited_rsp(rng.choice([wire.SELECT_RSP, wire.DESELECT_RSP, wire.LINKTEST_RSP, wire.REJECT_REQ]))
        elif r < 0.66 and run.model == {SEL}:
            run.ev_open_request()
        elif r < 0.68:
            run.ev_reply_to_open_request()
        elif r < 0.93:
            run.ev_data(rng.choice(["header_only", "header_only", "uncatalogued", "undecodable"]), rng.random() < 0.5)
        elif r < 0.955:
            run.ev_burst()
        else:
            run.ev_linktest_timer(True)
    ctx.case(("hist", active, tuple(h.split("(")[0] for h in run.hist)), nontrivial=run.injected_connected > 0)
    if ctx.evaluations <= 2:
        ctx.sample({"mode": "active" if active else "passive", "history": run.hist[:12]})
    run.finish()


def _race(ctx, rounds):
    """Transport connect racing an already in-flight Select.req (then a data message)."""
    from lib.hsmsrig import Rig

    rng = ctx.rng
    inj = sched.YieldInjector(["secsgem/hsms/protocol.py", "secsgem/common/protocol.py", "secsgem/common/protocol_dispatcher.py",
                               "secsgem/common/state_machine.py", "secsgem/common/byte_queue.py"])
    inj.install()
    sigs = set()
    try:
        for r in range(rounds):
            rig = Rig(active=False)
            seed = rng.getrandbits(32)
            system = 0x5000 + r
            inj.begin(seed, p=rng.choice([0.2, 0.4, 0.6]), slow=("connectThread",) if rng.random() < 0.7 else ())
            rig.pipe.connect(wait=False)
            rig.pipe.feed(wire.hsms_control(wire.SELECT_REQ, system))
            rig.wait(lambda: any(f.system == system for f in rig.pipe.frames()), 3.0)
            rig.quiesce(2.0)
            sig, yields, events = inj.end()
            sigs.add(sig)
            ctx.count("race.rounds")
            ctx.count("race.yields_injected", yields)
            ctx.case(("race", sig), nontrivial=True)
            frames = rig.pipe.frames()
            answered = [f for f in frames if f.system == system and f.stype == wire.SELECT_RSP]
            wit = {"schedule_seed": seed, "frames": [f.describe() for f in frames], "state": rig.state, "events": [e[1] for e in rig.log]}
            if len(answered) != 1:
                if rig.confirm_absent(lambda: any(f.system == system for f in rig.pipe.frames()), 0.3):
                    ctx.violation("race:select-req-in-flight-not-answered", wit)
            elif rig.state != SEL:
                rig.wait(lambda: rig.state == SEL, 0.5)
                if rig.state != SEL:
                    ctx.violation("race:select-rsp-sent-but-not-SELECTED", {**wit, "state": rig.state})
            # a data message must now be delivered (peer believes the session is selected)
            if len(answered) == 1:
                rig.pipe.feed(wire.hsms_data(1, 1, True, 0x7777, b""))
                rig.wait(lambda: any(m["system"] == 0x7777 for m in rig.delivered), 2.0)
                if not any(m["system"] == 0x7777 for m in rig.delivered):
                    if rig.confirm_absent(lambda: any(m["system"] == 0x7777 for m in rig.delivered), 0.3):
                        ctx.violation("race:data-after-select-rsp-not-delivered", {**wit, "frames_after": [f.describe() for f in rig.pipe.frames()]})
            rig.close(3.0)
            for t in vtime.pending(owner=rig.protocol):
                t.cancel()
        ctx.count("race.distinct_signatures", len(sigs))
    finally:
        inj.uninstall()


def run(ctx):
    vtime.install()
    n = 45 if ctx.quick else 300
    length = 12 if ctx.quick else 40
    for i in range(n):
        _history(ctx, active=(i % 2 == 1), length=ctx.rng.randint(4, length))
    _race(ctx, 25 if ctx.quick else 400)
