"""C09 - no peer behaviour wedges the endpoint: link loss ends in a clean, reusable state.

Part A (in-memory, fault enumeration): for every byte offset of every stream in a fixed set, in both session
states, the inbound stream is cut there and followed by peer close / local disable / close-and-reconnect; the
close sequence must complete, the state must be NOT CONNECTED, the next connection must select and deliver a
data message intact (no stale bytes), disable() must return.  A 'blocked forever' oracle (stack sampling)
separates wedges from slowness.
Part B (real loopback sockets): the real TcpServerConnection / TcpClientConnection under the real HsmsProtocol
against a raw socket peer: cuts, peer-first closes, enable/disable sequences with random gaps and seeded yield
injection on the tcp_*.py files.
"""

from __future__ import annotations

import itertools
import socket
import struct
import threading
import time

from lib import sched, stuck, vtime, wire

PROPERTY = "C09"
LEVEL = "fault_enumeration"
RULE = ("part A enumerates (session state in {NOT SELECTED, SELECTED}) x (11 inbound streams: control and data frames, "
        "2- and 3-frame concatenations, an over-long length field) x (every byte offset 0..len) x (peer close, local "
        "disable, close+reconnect) x (3 segmentations of the prefix); part B samples real-socket scenarios (cut offsets, "
        "a first connection that ends before it was selected, disable during connect / after accept / with a half-received frame / after the peer closed, repeated cycles, "
        "also with a slow application 'disconnected' handler while the peer reconnects at once) with seeded yield injection, "
        "half of them with the disabling thread slowed to milliseconds per yield, plus forced schedules (disable() held at its "
        "stop-flag statement until the listen/connect thread has ended); distinct by (state, stream, offset, follow-up, segmentation | scenario, seed); "
        "non-trivial when the cut falls inside a frame or a disable races with connection set-up; plus: a cut after a burst of 1100 Linktest.req; peers that connect and leave at once; forced schedules for the race between the end of a connection (restart of the listen / connect thread) and disable(); a connection listener that sends from within on_connected and waits for the peer's answer (both roles, peer staying or leaving at once, two visits); part A: in a tenth of the cases the peer stalls first and the timers the endpoint armed for the connection expire (virtual time); disable() called from within the message_received handler (in-memory and real TCP), then enable, select, deliver")
ASSUMPTIONS = ["the in-memory connection reproduces TcpConnection's callback contract (see lib/pipe.py)",
               "a close sequence that has not finished after the watchdog is a violation only if every thread is parked in the "
               "same untimed wait over several samples; otherwise the case is inconclusive",
               "part B uses loopback sockets; kernel timing is not controlled"]
LEVEL_TEXT = ("Fault enumeration over every cut point of a stream set (part A, complete) plus sampled real-socket fault and "
              "enable/disable schedules (part B) with a stack-sampling deadlock oracle.")
LEVEL_NOTE = "Part B explores sampled, not all, offsets and schedules."
TECHNIQUE = "exhaustive cut-point fault injection + stack-sampling blocked-forever oracle; real-socket stress with yield injection"
SHARDS = {"quick": 16, "thorough": 16}
TIMEOUT = {"quick": 500, "thorough": 3400}
FLOORS = {"partA.cuts": 1500, "partA.reconnect_verified": 1500, "partB.scenarios": 20, "partA.cut_inside_frame": 500, "partA.send_while_link_down": 200,
          "partB.listener_converses_on_connect_rounds": 16, "oracle.disable_called_from_message_handler": 16}

NC = "NOT_CONNECTED"


def _streams():
    d = wire.hsms_data
    c = wire.hsms_control
    return [
        ("select_req", c(wire.SELECT_REQ, 0x101)),
        ("linktest_req", c(wire.LINKTEST_REQ, 0x102)),
        ("data_W_body0", d(1, 1, True, 0x103, b"")),
        ("data_body1", d(1, 1, False, 0x104, b"\x01")),
        ("data_W_body40", d(2, 25, True, 0x105, b"\x21\x26" + bytes(range(38)))),
        ("two_frames", d(1, 1, True, 0x106, b"") + c(wire.LINKTEST_REQ, 0x107)),
        ("three_frames", c(wire.LINKTEST_REQ, 0x108) + d(1, 1, False, 0x109, b"abc") + d(6, 0, False, 0x10A, b"")),
        ("deselect_then_data", c(wire.DESELECT_REQ, 0x10B) + d(1, 1, True, 0x10C, b"")),
        ("overlong_length", b"\x00\xff\xff\xff" + bytes(20)),
        ("separate_then_data", c(wire.SEPARATE_REQ, 0x10D) + d(1, 1, False, 0x10E, b"xy")),
        ("unknown_stype", wire.hsms_control(8, 0x10F) + c(wire.LINKTEST_REQ, 0x110)),
    ]


class PartA:
    def __init__(self, ctx):
        self.ctx = ctx
        self.rig = None
        self.sysgen = itertools.count(0x9000)

    def fresh(self):
        from lib.hsmsrig import Rig
        self.rig = Rig(active=False, t6=2.0)
        if self.ctx.rng.random() < 0.35:
            # an application hook on the 'disconnected' event that fails: the endpoint's own clean-up must not depend on it
            def failing_hook(data):
                raise RuntimeError("application handler of 'disconnected' fails")
            self.rig.protocol.events.disconnected += failing_hook
            self.ctx.count("partA.rigs_with_failing_disconnected_hook")

    def bring_up(self, selected):
        rig = self.rig
        rig.pipe.connect()
        if selected:
            system = next(self.sysgen)
            rig.pipe.feed(wire.hsms_control(wire.SELECT_REQ, system))
            return rig.wait(lambda: any(f.stype == wire.SELECT_RSP and f.system == system for f in rig.pipe.frames()), 3.0)
        return True

    def run_thread(self, fn, timeout):
        done = threading.Event()
        box = {}

        @stuck.harness_thread
        def run():
            try:
                fn()
            except Exception as exc:
                box["exc"] = repr(exc)
            done.set()
        th = threading.Thread(target=run, daemon=True, name="harness-op")
        th.start()
        return th, done.wait(timeout), box

    def wedged(self, what, wit, threads=()):
        """The operation did not finish: violation if blocked forever, else inconclusive."""
        alive = [t for t in threads if t.is_alive()]
        rx = self.rig.pipe._rx_thread
        watch = alive + ([rx] if rx is not None and rx.is_alive() else [])
        if stuck.blocked_forever(watch, watch=0.6, samples=5):
            self.ctx.violation(f"{what}-blocked-forever", {**wit, "stacks": stuck.stacks(8)})
        else:
            self.ctx.unsure(f"{what} did not finish within the watchdog but threads are still moving: {wit}")
        self.rig = None

    def case(self, selected, name, stream, offset, follow, seg):
        ctx, rng = self.ctx, self.ctx.rng
        if self.rig is None:
            self.fresh()
        rig = self.rig
        wit = {"state": "SELECTED" if selected else "NOT_SELECTED", "stream": name, "cut_offset": offset, "stream_len": len(stream),
               "follow_up": follow, "segmentation": seg}
        if not self.bring_up(selected):
            ctx.violation("cannot-select-before-case", {**wit, "frames": [f.describe() for f in rig.pipe.frames()]})
            self.rig = None
            return
        prefix = stream[:offset]
        if seg == "whole":
            segs = [len(prefix)] if prefix else []
        elif seg == "bytes":
            segs = [1] * len(prefix)
        else:
            from lib import gen
            segs = gen.partitions(rng, len(prefix), "random") if prefix else []
        pos = 0
        for n in segs:
            rig.pipe.feed(prefix[pos:pos + n])
            pos += n
        rig.quiesce(2.0)
        # ---- in a fifth of the cases the peer stalls first: time passes, every timer the endpoint has armed for this
        # connection expires (linktest; a T7 / T8 supervision if the tree has one). The endpoint may send what it likes and
        # may end the connection itself; the close sequence and the reuse below are demanded all the same.
        if (offset + len(stream)) % 10 == 2:
            fired = 0
            for _ in range(2):
                timers = vtime.pending(owner=rig.protocol)
                if not timers:
                    break
                th = vtime.fire(timers[0])
                fired += 1
                if th is not None:
                    th.join(0.3)     # (a linktest that waits for its answer stays behind as a daemon thread until T6)
            wit["timers_expired_while_the_peer_stalled"] = fired
            ctx.count("partA.cases_with_timer_expiry_while_the_peer_stalled")
            ctx.count("partA.timers_fired_while_the_peer_stalled", fired)
            rig.quiesce(1.0)
        # ---- follow-up
        if follow in ("peer_close", "close_reconnect"):
            rig.pipe.peer_close()
            if not rig.pipe.wait_closed(3.0):
                self.wedged("close-sequence", wit)
                return
        else:
            th, ok, box = self.run_thread(rig.protocol.disable, 3.0)
            if not ok:
                self.wedged("disable", wit, [th])
                return
            if "exc" in box:
                ctx.violation("disable-raises", {**wit, "error": box["exc"]})
            rig.protocol.enable()
        ctx.count("partA.cuts")
        rig.quiesce(1.0)
        if rig.state != NC:
            rig.wait(lambda: rig.state == NC, 0.5)
            if rig.state != NC:
                ctx.violation("not-NOT_CONNECTED-after-link-loss", {**wit, "state": rig.state})
                self.rig = None
                return
        # ---- a send attempted while the link is down must return (it cannot succeed), not block its caller forever
        if offset % 5 == 0:
            import secsgem.secs.functions as F
            box = {}
            th, ok, err = self.run_thread(lambda: box.setdefault("r", rig.protocol.send_stream_function(F.SecsS01F01())), 2.0)
            ctx.count("partA.send_while_link_down")
            if not ok:
                self.wedged("send-while-not-connected", wit, [th])
                return
            if box.get("r") is True:
                ctx.violation("send-while-not-connected-reports-success", wit)
        # ---- the endpoint must be reusable: reconnect, select, deliver a data message intact
        rig.pipe.connect()
        s1, s2 = next(self.sysgen), next(self.sysgen)
        body = b"\x41\x05hello"
        rig.pipe.feed(wire.hsms_control(wire.SELECT_REQ, s1))
        got_rsp = rig.wait(lambda: any(f.stype == wire.SELECT_RSP and f.system == s1 for f in rig.pipe.frames()), 3.0)
        if not got_rsp:
            if rig.confirm_absent(lambda: any(f.system == s1 for f in rig.pipe.frames()), 0.4):
                ths = [t for t in threading.enumerate() if "secsgem" in t.name]
                if stuck.blocked_forever([t for t in ths if t.is_alive()][:1] or [threading.current_thread()], watch=0.4):
                    ctx.violation("no-select-after-reconnect:endpoint-wedged", {**wit, "frames": [f.describe() for f in rig.pipe.frames()],
                                                                              "stacks": stuck.stacks(8)})
                else:
                    ctx.violation("no-select-after-reconnect", {**wit, "frames": [f.describe() for f in rig.pipe.frames()], "state": rig.state})
                self.rig = None
                return
        n0 = len(rig.delivered)
        rig.pipe.feed(wire.hsms_data(10, 3, False, s2, body))
        rig.wait(lambda: any(m["system"] == s2 for m in rig.delivered[n0:]), 3.0)
        got = [m for m in rig.delivered[n0:] if m["system"] == s2]
        if len(got) != 1 or got[0]["body"] != body or (got[0]["stream"], got[0]["function"]) != (10, 3):
            if rig.confirm_absent(lambda: any(m["system"] == s2 for m in rig.delivered[n0:]), 0.4) or got:
                ctx.violation("first-message-on-new-connection-not-delivered-intact",
                              {**wit, "delivered": [(hex(m["system"]), m["stream"], m["function"], m["body"].hex()) for m in rig.delivered[n0:]][:4]})
                self.rig = None
                return
        ctx.count("partA.reconnect_verified")
        # tidy: close this verification connection
        rig.pipe.peer_close()
        if not rig.pipe.wait_closed(3.0):
            self.wedged("close-after-verification", wit)
            return
        # keep the number of leaked threads per process bounded
        if ctx.counters.get("partA.cuts", 0) % 60 == 0:
            th, ok, _ = self.run_thread(rig.protocol.disable, 3.0)
            if not ok:
                self.wedged("disable-at-rotation", wit, [th])
                return
            self.rig = None


def _send_during_link_loss(ctx, rounds):
    """Application threads keep sending while the peer closes the link, with the protocol thread slowed at its statements
    (seeded yield injection): every send must return and the close sequence must finish."""
    import secsgem.secs.functions as F
    from lib.hsmsrig import Rig

    rng = ctx.rng
    inj = sched.YieldInjector(["secsgem/hsms/protocol.py", "secsgem/common/protocol.py", "secsgem/common/protocol_dispatcher.py"])
    inj.install()
    try:
        for r in range(rounds):
            rig = Rig(active=False, t6=2.0, t3=1.0)
            if not rig.connect_and_select():
                ctx.unsure("send during link loss: could not select")
                continue
            stop = threading.Event()
            results = []

            @stuck.harness_thread
            def sender():
                while not stop.is_set():
                    try:
                        results.append(rig.protocol.send_stream_function(F.SecsS01F01()))
                    except Exception as exc:
                        results.append(repr(exc))
            inj.begin(rng.getrandbits(32), p=rng.choice([0.2, 0.4]), slow=("protocol_receiver", "pipeConnection_receiver") if rng.random() < 0.8 else ())   # protocol thread and close sequence slowed
            ths = [threading.Thread(target=sender, daemon=True, name=f"harness-sender-{i}") for i in range(rng.choice([1, 2, 3]))]
            for t in ths:
                t.start()
            time.sleep(rng.choice([0.005, 0.02, 0.05]))
            rig.pipe.peer_close()
            closed = rig.pipe.wait_closed(4.0)
            time.sleep(0.05)
            stop.set()
            for t in ths:
                t.join(4.0)
            sig, yields, _ = inj.end()
            ctx.count("partA.sends_racing_the_link_loss")
            ctx.case(("A-send-race", sig), nontrivial=True)
            wit = {"scenario": "application sends while the peer closes the link", "sends": len(results), "schedule_signature": sig}
            rx = rig.pipe._rx_thread
            stuck_threads = [t for t in ths if t.is_alive()] + ([rx] if (not closed and rx is not None and rx.is_alive()) else [])
            if stuck_threads:
                if stuck.blocked_forever(stuck_threads, watch=0.8, samples=5):
                    ctx.violation("close-sequence-blocked-forever" if not closed else "send-while-link-is-lost-blocked-forever", {**wit, "stacks": stuck.stacks(8)})
                else:
                    ctx.unsure(f"send during link loss: threads still moving after the watchdog: {wit}")
                continue        # the rig is wedged: leave it
            if any(isinstance(x, str) for x in results):
                ctx.violation("send-raises-while-the-link-is-lost", {**wit, "error": next(x for x in results if isinstance(x, str))[:200]})
            th, ok, _ = PartA.run_thread(None, rig.protocol.disable, 4.0)
            if not ok:
                if stuck.blocked_forever([t for t in (rig.pipe._rx_thread,) if t is not None and t.is_alive()] or [th], watch=0.8, samples=5):
                    ctx.violation("disable-blocked-forever", {**wit, "stacks": stuck.stacks(8)})
                else:
                    ctx.unsure(f"send during link loss: disable() did not return: {wit}")
    finally:
        inj.uninstall()


def _forced_send_at_link_loss(ctx):
    """Forced schedule: the link is lost; the close sequence is held right before it stops the protocol thread; an application
    thread sends (the send fails, as it must, and takes its entry back from the send queue) while the protocol thread is held
    right before it takes that entry; then both are released. The close sequence must still finish."""
    import secsgem.secs.functions as F
    from lib.hsmsrig import Rig

    at_stop = threading.Event()
    release_stop = threading.Event()
    at_get = threading.Event()
    box = {}

    def tracer(frame, event, arg):
        if event != "call":
            return None
        name, fn = frame.f_code.co_name, frame.f_code.co_filename
        if name == "_on_disconnected" and fn.endswith("hsms/protocol.py"):
            needle, which = "self._thread.stop()", "stop"
        elif name == "_process_send_queue" and fn.endswith("hsms/protocol.py"):
            needle, which = "self._send_queue.get", "get"
        elif name == "send_message" and fn.endswith("common/protocol.py"):
            needle, which = "self._fail_pending_sends()", "fail"
        else:
            return None
        try:
            with open(fn) as fh:
                lines = fh.readlines()
        except OSError:
            return None

        def line(frame, event, arg):
            if event == "line" and needle in lines[frame.f_lineno - 1]:
                if which == "stop" and not at_stop.is_set():
                    at_stop.set()
                    release_stop.wait(6.0)
                elif which == "fail" and at_stop.is_set() and not at_get.is_set():
                    at_get.wait(2.0)         # the sender takes its entry back only when the protocol thread is about to take it
                elif which == "get" and at_stop.is_set() and not at_get.is_set():
                    at_get.set()
                    q = frame.f_locals["self"]._send_queue
                    end = time.monotonic() + 3.0
                    while not q.empty() and time.monotonic() < end:      # until the failed send has taken its entry back
                        time.sleep(0.0005)
            return line
        return line

    threading.settrace(tracer)
    try:
        rig = Rig(active=False, t6=2.0, t3=1.0)
        if not rig.connect_and_select():
            ctx.unsure("forced send at link loss: could not select")
            return
        rig.pipe.peer_close()
        if not at_stop.wait(4.0):
            ctx.count("partA.forced_send_probe_not_reached")
            release_stop.set()
            return

        @stuck.harness_thread
        def sender():
            try:
                box["r"] = rig.protocol.send_stream_function(F.SecsS01F01())
            except Exception as exc:
                box["exc"] = repr(exc)
        th = threading.Thread(target=sender, daemon=True, name="harness-sender")
        th.start()
        at_get.wait(2.0)
        th.join(3.0)
        release_stop.set()
        closed = rig.pipe.wait_closed(4.0)
        ctx.count("partA.forced_send_probes" if at_get.is_set() else "partA.forced_send_probe_not_reached")
        ctx.case(("A-forced-send", at_get.is_set()), nontrivial=True)
        wit = {"scenario": "forced: application send between link loss and the stop of the protocol thread", "send_result": box.get("r"), "send_error": box.get("exc")}
        if not closed or th.is_alive():
            rx = rig.pipe._rx_thread
            watch = [t for t in (rx, th) if t is not None and t.is_alive()]
            if stuck.blocked_forever(watch, watch=0.8, samples=5):
                ctx.violation("close-sequence-blocked-forever" if not closed else "send-while-link-is-lost-blocked-forever", {**wit, "stacks": stuck.stacks(8)})
            else:
                ctx.unsure(f"forced send at link loss: still moving after the watchdog: {wit}")
            return
        if box.get("r") is True:
            ctx.violation("send-while-not-connected-reports-success", wit)
        th2, ok, _ = PartA.run_thread(None, rig.protocol.disable, 4.0)
    finally:
        threading.settrace(None)
        release_stop.set()


def _frame_bounds(stream):
    bounds, pos = [], 0
    while pos + 4 <= len(stream):
        ln = int.from_bytes(stream[pos:pos + 4], "big") + 4
        bounds.append((pos, min(pos + ln, len(stream))))
        pos += ln
    return bounds


def part_a(ctx):
    a = PartA(ctx)
    idx = 0
    streams = _streams()
    for selected in (False, True):
        for name, stream in streams:
            bounds = _frame_bounds(stream)
            for offset in range(len(stream) + 1):
                for follow in ("peer_close", "disable", "close_reconnect"):
                    for seg in ("whole", "bytes", "random"):
                        idx += 1
                        if not ctx.mine(idx):
                            continue
                        inside = not any(offset == b for _, b in bounds) and offset != 0
                        ctx.case(("A", selected, name, offset, follow, seg), nontrivial=inside)
                        if inside:
                            ctx.count("partA.cut_inside_frame")
                        a.case(selected, name, stream, offset, follow, seg)
    # a long run of requests in one segment (every one is answered), then the link goes away
    burst = b"".join(wire.hsms_control(wire.LINKTEST_REQ, 0x440000 + i) for i in range(1100))
    for offset in (len(burst), len(burst) - 5, 14 * 700 + 3):
        for follow in ("peer_close", "disable", "close_reconnect"):
            idx += 1
            if not ctx.mine(idx):
                continue
            ctx.case(("A", True, "burst_1100_linktest", offset, follow, "whole"), nontrivial=True)
            ctx.count("partA.cut_after_a_burst_of_requests")
            a.case(True, "burst_1100_linktest", burst, offset, follow, "whole")
    _send_during_link_loss(ctx, 6 if ctx.quick else 150)
    if ctx.shard % 4 == 0:
        _forced_send_at_link_loss(ctx)
    if a.rig is not None:
        a.run_thread(a.rig.protocol.disable, 3.0)
    ctx.exhaustive["partA_every_cut_offset_x_state_x_followup_x_segmentation"] = True
    ctx.note("partA_streams", {n: len(s) for n, s in streams})


# ------------------------------------------------------------------------------------------------ part B: real sockets
def _free_port(ctx):
    from lib import ports
    return ports.free_port(ctx.shard, ctx.nshards)


def _recv_frames(sock, want, timeout=3.0, info=None):
    """Read until `want(frames)` is true or timeout; returns frames. info['closed'] is set when the connection ended."""
    buf = b""
    sock.settimeout(0.05)
    end = time.monotonic() + timeout
    frames = []
    while time.monotonic() < end:
        try:
            chunk = sock.recv(65536)
            if not chunk:
                if info is not None:
                    info["closed"] = True
                break
            buf += chunk
        except (socket.timeout, BlockingIOError):
            pass
        except OSError:
            if info is not None:
                info["closed"] = True
            break
        frames, _ = wire.parse_hsms_stream(buf)
        if want(frames):
            break
    return frames


class RealEndpoint:
    def __init__(self, active, port):
        import secsgem.common
        import secsgem.hsms

        mode = secsgem.hsms.HsmsConnectMode.ACTIVE if active else secsgem.hsms.HsmsConnectMode.PASSIVE
        self.settings = secsgem.hsms.HsmsSettings(connect_mode=mode, address="127.0.0.1", port=port, t5=1, t6=2.0)
        self.protocol = self.settings.create_protocol()
        self.delivered = []
        self.protocol.events.message_received += lambda d: self.delivered.append((d["message"].header.system, bytes(d["message"].data)))
        conn = self.protocol._connection  # noqa: SLF001 - the connection object is created lazily by this accessor only
        conn.select_timeout = 0.05
        self.conn = conn

    @property
    def state(self):
        return self.protocol.connection_state.current.name


def _call(fn, timeout):
    done = threading.Event()
    box = {}

    @stuck.harness_thread
    def run():
        try:
            fn()
        except Exception as exc:
            box["exc"] = repr(exc)
        done.set()
    th = threading.Thread(target=run, daemon=True, name="harness-call")
    th.start()
    return th, done.wait(timeout), box


def _scenario_b(ctx, inj, idx, state):
    rng = ctx.rng
    active = rng.random() < 0.5
    port = _free_port(ctx)
    ep = RealEndpoint(active, port)
    kind = rng.choice(["cut_then_peer_close", "cut_then_disable", "disable_during_connect", "disable_right_after_accept",
                       "peer_closes_first_then_disable", "cycles", "cycles"])
    seed = rng.getrandbits(32)
    wit = {"mode": "active" if active else "passive", "scenario": kind, "schedule_seed": seed}
    if kind == "cycles" and rng.random() < 0.5:
        # an application handler of the 'disconnected' event takes its time while the peer comes back at once: the new
        # connection must not run into the end of the old one
        pause = rng.choice([0.02, 0.1, 0.3])
        ep.protocol.events.disconnected += lambda d: time.sleep(pause)
        wit["slow_disconnected_handler_s"] = pause
        ctx.count("partB.cycles_with_slow_disconnected_handler")
    listener = None
    if active:
        listener = socket.socket()
        listener.setsockopt(socket.SOL_SOCKET, socket.SO_REUSEADDR, 1)
        listener.bind(("127.0.0.1", port))
        listener.listen(4)
        listener.settimeout(4.0)
    # half of the schedules bias the race between disable() and the end of the connect / accept thread: the thread that
    # calls disable() pauses for milliseconds (instead of microseconds) at the injected yields
    bias = rng.random() < 0.5
    wit["disable_thread_slowed"] = bias
    inj.begin(seed, p=rng.choice([0.0, 0.1, 0.3]) if not bias else rng.choice([0.2, 0.4]), slow=("harness-call",) if bias else ())

    def peer_connect():
        if active:
            # the endpoint connects again after T5 (1 s): 4 s is plenty on an idle machine; before 'never' is concluded the
            # listener stays patient for another 20 s (more on a loaded machine) - only a tree that does not come back pays that
            for wait_s in (4.0, stuck.patience(8.0), stuck.patience(12.0)):
                listener.settimeout(wait_s)
                try:
                    s, _ = listener.accept()
                    return s
                except socket.timeout:
                    ctx.count("partB.accept_needed_more_patience")
                except OSError:
                    return None
            return None
        end = time.monotonic() + stuck.patience(4)
        while time.monotonic() < end:
            try:
                return socket.create_connection(("127.0.0.1", port), timeout=1.0)
            except OSError:
                time.sleep(0.02)
        return None

    select_info = {}

    def do_select(sock, system):
        select_info.clear()
        if active:
            fr = _recv_frames(sock, lambda f: any(x.stype == wire.SELECT_REQ for x in f))
            req = [x for x in fr if x.stype == wire.SELECT_REQ]
            if not req:
                return False
            sock.sendall(wire.hsms_control(wire.SELECT_RSP, req[0].system))
            end = time.monotonic() + stuck.patience(2)
            while time.monotonic() < end and ep.state != "CONNECTED_SELECTED":
                time.sleep(0.005)
            return ep.state == "CONNECTED_SELECTED"
        try:
            sock.sendall(wire.hsms_control(wire.SELECT_REQ, system))
        except OSError:
            select_info["closed"] = True
            return False
        fr = _recv_frames(sock, lambda f: any(x.stype == wire.SELECT_RSP and x.system == system for x in f), info=select_info)
        return any(x.stype == wire.SELECT_RSP and x.system == system for x in fr)

    def fail(what, threads=()):
        if threads and stuck.blocked_forever([t for t in threads if t.is_alive()], watch=0.8, samples=4):
            ctx.violation(f"B:{what}-blocked-forever", {**wit, "stacks": stuck.stacks(8)})
        elif threads and any(t.is_alive() for t in threads):
            # spin loops (while flag: sleep) never park: same secsgem line over several samples and nobody left to clear the flag
            if _spinning(threads):
                ctx.violation(f"B:{what}-spins-forever", {**wit, "stacks": stuck.stacks(8)})
            else:
                ctx.unsure(f"B:{what} did not finish within the watchdog: {wit}")
                state["abort"] = True   # a leaked spinning thread would distort every later scenario of this worker
        else:
            ctx.violation(f"B:{what}", wit)

    try:
        ep.protocol.enable()
        frame = wire.hsms_data(2, 25, True, 0x777, b"\x21\x10" + bytes(16))
        if kind == "disable_during_connect":
            time.sleep(rng.choice([0.0, 0.01, 0.05, 0.3]))
            th, ok, box = _call(ep.protocol.disable, 6.0)
            if not ok:
                fail("disable-during-connect", [th])
                return
        elif kind == "disable_right_after_accept":
            sock = peer_connect()
            time.sleep(rng.choice([0.0, 0.001, 0.01]))
            th, ok, box = _call(ep.protocol.disable, 6.0)
            if sock:
                sock.close()
            if not ok:
                fail("disable-right-after-accept", [th])
                return
        else:
            cycles = 3 if kind == "cycles" else 1
            if rng.random() < 0.35:
                # a connection that ends before the session was selected: the peer leaves the Select.req of an active endpoint
                # unanswered (or, towards a passive one, never sends its own) and closes. The next connection must select.
                sock = peer_connect()
                if sock is None:
                    fail("no-connection-in-cycle-0")
                    return
                if active:
                    _recv_frames(sock, lambda f: any(x.stype == wire.SELECT_REQ for x in f), timeout=2.0)
                time.sleep(rng.choice([0.0, 0.05, 0.3]))
                sock.close()
                wit["first_connection"] = "closed before it was selected"
                ctx.count("partB.connection_closed_before_select")
                end = time.monotonic() + 5
                while time.monotonic() < end and ep.state != NC:
                    time.sleep(0.001)
            for cyc in range(cycles):
                selected = False
                for attempt in range(4):
                    sock = peer_connect()
                    if sock is None:
                        fail(f"no-connection-in-cycle-{min(cyc, 1)}")
                        return
                    if do_select(sock, 0x500 + cyc + 16 * attempt):
                        selected = True
                        break
                    if not select_info.get("closed") or active:
                        break
                    # a passive endpoint serves one connection at a time: a connection that was still waiting in the listen
                    # queue when the endpoint stopped listening is dropped by the TCP stack; a peer connects again (T5)
                    ctx.count("partB.connection_dropped_before_it_was_accepted")
                    sock.close()
                    time.sleep(0.2)
                if not selected:
                    fail(f"no-select-in-cycle-{min(cyc, 1)}")
                    sock.close()
                    return
                if cyc > 0 or kind != "cycles":
                    pass
                # the first message of every connection must arrive intact (no stale bytes)
                n0 = len(ep.delivered)
                sock.sendall(wire.hsms_data(10, 3, False, 0x600 + cyc, b"\x41\x02ok"))
                end = time.monotonic() + 2
                while time.monotonic() < end and len(ep.delivered) == n0:
                    time.sleep(0.005)
                if ep.delivered[n0:] != [(0x600 + cyc, b"\x41\x02ok")]:
                    fail("first-message-on-connection-not-delivered-intact")
                    sock.close()
                    return
                cut = rng.randint(1, len(frame) - 1)
                sock.sendall(frame[:cut])
                time.sleep(rng.choice([0.0, 0.01, 0.05]))
                if kind in ("cut_then_peer_close", "cycles", "peer_closes_first_then_disable"):
                    if rng.random() < 0.4:
                        # abortive close: the peer resets the connection (RST) instead of closing it in an orderly way (FIN)
                        sock.setsockopt(socket.SOL_SOCKET, socket.SO_LINGER, struct.pack("ii", 1, 0))
                        wit["peer_close"] = "reset"
                        ctx.count("partB.peer_resets_connection")
                    sock.close()
                    end = time.monotonic() + 5
                    while time.monotonic() < end and ep.state != NC:
                        time.sleep(0.001)
                    if ep.state != NC:
                        ths = [t for t in threading.enumerate() if t.name.startswith("secsgem_tcpConnection_receiver")]
                        if not ths:
                            # nobody is left who could run the close sequence: the receiver thread is gone without having run it
                            time.sleep(2.0)
                            if ep.state != NC and not [t for t in threading.enumerate() if t.name.startswith("secsgem_tcpConnection_receiver")]:
                                ctx.violation("B:link-loss-not-handled:receiver-thread-ended-without-the-close-sequence",
                                              {**wit, "state": ep.state, "connected": getattr(ep.conn, "connected", None)})
                                state["abort"] = True
                                return
                        fail("close-sequence-after-partial-frame", ths or [threading.current_thread()])
                        return
                else:
                    th, ok, box = _call(ep.protocol.disable, 6.0)
                    sock.close()
                    if not ok:
                        fail("disable-with-half-received-frame", [th])
                        return
                    break
            if kind != "cut_then_disable":
                th, ok, box = _call(ep.protocol.disable, 6.0)
                if not ok:
                    fail("final-disable", [th])
                    return
        ctx.count("partB.scenarios")
        ctx.count(f"partB.{kind}")
    finally:
        sig, yields, _ = inj.end()
        ctx.count("partB.yields_injected", yields)
        ctx.case(("B", kind, active, sig), nontrivial=True)
        if listener:
            listener.close()
        _call(ep.protocol.disable, 2.0)


def _spinning(threads, samples=5, span=2.0):
    """Flag-spin classification: innermost secsgem frame of each thread stays on one line over several samples."""
    import sys
    seen = None
    for _ in range(samples):
        frames = sys._current_frames()
        cur = {}
        for t in threads:
            fr = frames.get(t.ident)
            while fr is not None and "/secsgem/" not in fr.f_code.co_filename:
                fr = fr.f_back
            if fr is None:
                return False
            cur[t.ident] = (fr.f_code.co_filename, fr.f_lineno if fr.f_code.co_name else 0, fr.f_code.co_name)
        if seen is None:
            seen = cur
        elif {k: v[2] for k, v in cur.items()} != {k: v[2] for k, v in seen.items()}:
            return False
        time.sleep(span / samples)
    # nobody else could clear the flag: no other secsgem tcp thread alive
    others = [t for t in threading.enumerate() if t.name.startswith("secsgem_tcp") and t not in threads]
    return not others


def stuck_stack(th):
    import sys
    import traceback
    fr = sys._current_frames().get(th.ident)
    return [f"{f.filename.split('/')[-1]}:{f.lineno} {f.name}" for f in traceback.extract_stack(fr)[-5:]] if fr else []


def _forced_disable_race(ctx, active):
    """Injected delay at a suspension point: the thread that calls disable() is held at the statement that sets the stop flag
    until the listen / connect thread - which has just got its connection - has ended. disable() must still return."""
    import sys

    port = _free_port(ctx)
    ep = RealEndpoint(active, port)
    fname = "tcp_client_connection" if active else "tcp_server_connection"
    needle = "stop_connection_thread = True" if active else "_stop_server_thread = True"
    attr = "connection_thread" if active else "_server_thread"
    reached = threading.Event()
    released = threading.Event()

    def tracer(frame, event, arg):
        if frame.f_code.co_name != "disable" or fname not in frame.f_code.co_filename:
            return None
        try:
            with open(frame.f_code.co_filename) as fh:
                lines = fh.readlines()
        except OSError:
            return None

        def line(frame, event, arg):
            if event == "line" and needle in lines[frame.f_lineno - 1] and not reached.is_set():
                reached.set()
                thread = getattr(frame.f_locals["self"], attr, None)
                end = time.monotonic() + 6
                while thread is not None and thread.is_alive() and time.monotonic() < end:
                    time.sleep(0.001)
                released.set()
            return line
        return line

    listener = None
    peer = None
    wit = {"mode": "active" if active else "passive", "scenario": "forced: disable() held at the stop flag until the thread ended"}
    try:
        ep.protocol.enable()
        time.sleep(0.3)

        @stuck.harness_thread
        def run():
            sys.settrace(tracer)
            try:
                ep.protocol.disable()
            finally:
                sys.settrace(None)
        th = threading.Thread(target=run, daemon=True, name="harness-call-forced")
        th.start()
        if not reached.wait(3.0):
            ctx.count("partB.forced_race_probe_not_reached")      # the statement does not exist (any more): nothing to force
            th.join(5)
            return
        if active:
            listener = socket.socket()
            listener.setsockopt(socket.SOL_SOCKET, socket.SO_REUSEADDR, 1)
            listener.bind(("127.0.0.1", port))
            listener.listen(2)
            listener.settimeout(5.0)
            try:
                peer, _ = listener.accept()
            except OSError:
                peer = None
        else:
            try:
                peer = socket.create_connection(("127.0.0.1", port), timeout=2.0)
            except OSError:
                peer = None
        released.wait(8.0)
        th.join(6.0)
        ctx.count("partB.forced_race_probes")
        ctx.case(("B-forced", active), nontrivial=True)
        if th.is_alive():
            worker = getattr(ep.conn, attr, None)
            th.join(3.0)
            # the only thread that clears the flag disable() waits for is gone: nobody is left to end the wait
            if th.is_alive() and released.is_set() and worker is not None and not worker.is_alive():
                ctx.violation("B:disable-never-returns-when-the-listen-or-connect-thread-ended-first",
                              {**wit, "peer_connected": peer is not None, "disable_stack": stuck_stack(th)})
            elif not th.is_alive():
                pass
            else:
                ctx.unsure(f"forced disable race: disable() still running after 6 s: {wit}")
    finally:
        for sck in (peer, listener):
            if sck is not None:
                try:
                    sck.close()
                except OSError:
                    pass
        _call(ep.protocol.disable, 2.0)


def _forced_restart_race(ctx, active):
    """Forced schedule: the receiver thread of a connection the peer has closed is held right before it starts the next listen /
    connect thread (it has seen 'enabled'); disable() is called meanwhile. When disable() has returned the endpoint must neither
    listen nor connect any more."""
    import sys

    port = _free_port(ctx)
    threads_before = set(threading.enumerate())      # (thread names carry no port: only threads born during this probe are its own)
    ep = RealEndpoint(active, port)
    fname = "tcp_client_connection" if active else "tcp_server_connection"
    needle = "__start_connect_thread()" if active else "__start_server_thread()"
    at_restart = threading.Event()
    release = threading.Event()

    def tracer(frame, event, arg):
        if event != "call" or frame.f_code.co_name != "_closed" or fname not in frame.f_code.co_filename:
            return None
        try:
            with open(frame.f_code.co_filename) as fh:
                lines = fh.readlines()
        except OSError:
            return None

        def line(frame, event, arg):
            if event == "line" and needle in lines[frame.f_lineno - 1] and not at_restart.is_set():
                at_restart.set()
                release.wait(6.0)
            return line
        return line

    wit = {"mode": "active" if active else "passive", "scenario": "forced: connection ends, receiver thread held before the restart, disable() meanwhile"}
    listener = None
    sock = None
    threading.settrace(tracer)
    try:
        if active:
            listener = socket.socket()
            listener.setsockopt(socket.SOL_SOCKET, socket.SO_REUSEADDR, 1)
            listener.bind(("127.0.0.1", port))
            listener.listen(4)
            listener.settimeout(4.0)
        ep.protocol.enable()
        try:
            if active:
                sock, _ = listener.accept()
            else:
                end = time.monotonic() + 4
                while sock is None and time.monotonic() < end:
                    try:
                        sock = socket.create_connection(("127.0.0.1", port), timeout=1.0)
                    except OSError:
                        time.sleep(0.02)
        except OSError:
            sock = None
        if sock is None:
            ctx.count("partB.forced_restart_probe_not_reached")
            return
        time.sleep(0.2)
        sock.close()                       # the peer closes: the endpoint's receiver thread runs its close sequence
        if not at_restart.wait(5.0):
            ctx.count("partB.forced_restart_probe_not_reached")     # the statement does not exist (any more)
            return
        th, ok, box = _call(ep.protocol.disable, 0.4)     # disable() meanwhile; it may have to wait for the held thread
        release.set()
        th.join(8.0)
        ctx.count("partB.forced_restart_probes")
        ctx.case(("B-forced-restart", active), nontrivial=True)
        if th.is_alive():
            if stuck.blocked_forever([th], watch=0.8, samples=4) or _spinning([th]):
                ctx.violation("B:disable-never-returns-when-the-connection-ended-at-the-same-moment", {**wit, "disable_stack": stuck_stack(th)})
            else:
                ctx.unsure(f"forced restart race: disable() still running after 8 s: {wit}")
            return
        time.sleep(0.5)
        name = "secsgem_tcpClientConnection_connectThread" if active else "secsgem_tcpServerConnection_serverThread"
        alive = [t.name for t in threading.enumerate() if t.name.startswith(name) and t not in threads_before]
        reachable = False
        if not active:
            try:
                socket.create_connection(("127.0.0.1", port), timeout=0.5).close()
                reachable = True
            except OSError:
                reachable = False
        else:
            listener.settimeout(1.5)
            try:
                c2, _ = listener.accept()
                c2.close()
                reachable = True
            except OSError:
                reachable = False
        if alive or reachable:
            ctx.violation("B:disabled-endpoint-still-listens-or-connects", {**wit, "threads": alive, "peer_reaches_it": reachable})
    finally:
        threading.settrace(None)
        release.set()
        for sck in (sock, listener):
            if sck is not None:
                try:
                    sck.close()
                except OSError:
                    pass
        _call(ep.protocol.disable, 3.0)


def _peer_leaves_at_once(ctx, rounds):
    """A passive endpoint is visited by peers that connect and leave at once (port scan, health check, crashed peer) - while the
    accept thread is still handing the connection over. After each visit a proper peer must be accepted and selected."""
    port = _free_port(ctx)
    ep = RealEndpoint(False, port)
    wit = {"mode": "passive", "scenario": "peer connects and leaves at once, then a proper peer comes"}
    try:
        ep.protocol.enable()
        time.sleep(0.2)
        for i in range(rounds):
            try:
                socket.create_connection(("127.0.0.1", port), timeout=1.0).close()
            except OSError:
                pass            # not listening yet again: fine, that is what the next loop waits for
            ok = False
            refused_for = 0.0
            t0 = time.monotonic()
            while time.monotonic() - t0 < 6.0 and not ok:
                try:
                    c = socket.create_connection(("127.0.0.1", port), timeout=1.0)
                except OSError:
                    time.sleep(0.02)
                    refused_for = time.monotonic() - t0
                    continue
                info = {}
                try:
                    c.sendall(wire.hsms_control(wire.SELECT_REQ, 0x700 + i))
                    fr = _recv_frames(c, lambda f: any(x.stype == wire.SELECT_RSP for x in f), timeout=1.5, info=info)
                    ok = any(x.stype == wire.SELECT_RSP and x.system == 0x700 + i for x in fr)
                except OSError:
                    ok = False
                if not ok:
                    c.close()
                    time.sleep(0.05)
            ctx.count("partB.peer_leaves_at_once_rounds")
            ctx.case(("B-leaves-at-once", i), nontrivial=True)
            if not ok:
                ths = [t.name for t in threading.enumerate() if t.name.startswith("secsgem_tcp")]
                ctx.violation("B:no-connection-or-select-after-a-peer-that-left-at-once",
                              {**wit, "round": i, "state": ep.state, "connection_refused_for_s": round(refused_for, 2), "tcp_threads": ths})
                return
            c.close()
            end = time.monotonic() + 3
            while time.monotonic() < end and ep.state != NC:
                time.sleep(0.002)
    finally:
        _call(ep.protocol.disable, 3.0)


def _listener_converses_on_connect(ctx, rounds):
    """A listener of the connection uses it from within `on_connected` (the SECS-I protocol with a GEM handler does: it sends its
    first request and waits for the line handshake right there).  The new connection must be usable at once: what the peer
    answers reaches `on_data` while the listener is still waiting for it - in both roles, also for a peer that answers and
    leaves, and the endpoint then reports the end of that connection and takes the next one."""
    import secsgem.hsms

    rng = ctx.rng
    for r in range(rounds):
        active = (r + ctx.shard) % 2 == 0
        port = _free_port(ctx)
        mode = secsgem.hsms.HsmsConnectMode.ACTIVE if active else secsgem.hsms.HsmsConnectMode.PASSIVE
        conn = secsgem.hsms.HsmsSettings(connect_mode=mode, address="127.0.0.1", port=port, t5=1).create_connection()
        conn.select_timeout = 0.05
        got = threading.Event()
        seen = {"in_listener": 0, "late": 0, "order": []}
        lock = threading.Lock()
        listening = {"on": False}

        def on_data(data):
            if b"pong" in data["data"]:
                with lock:
                    seen["in_listener" if listening["on"] else "late"] += 1
                got.set()

        def on_connected(_data):
            with lock:
                seen["order"].append("connected")
            listening["on"] = True
            got.clear()
            conn.send_data(b"ping")
            ok = got.wait(2.5)
            listening["on"] = False
            with lock:
                seen["order"].append("listener-done:" + ("answered" if ok else "no-answer"))

        def on_disconnected(_data):
            with lock:
                seen["order"].append("disconnected")

        conn.on_data.register(on_data)
        conn.on_connected.register(on_connected)
        conn.on_disconnected.register(on_disconnected)
        leave_at_once = rng.random() < 0.4
        visits = 2
        wit = {"mode": "active" if active else "passive", "peer": "answers ping with pong" + (" and leaves at once" if leave_at_once else ""),
               "scenario": "a listener sends from within on_connected and waits for the answer"}
        lsock = None
        try:
            if active:
                lsock = socket.socket()
                lsock.setsockopt(socket.SOL_SOCKET, socket.SO_REUSEADDR, 1)
                lsock.bind(("127.0.0.1", port))
                lsock.listen(2)
                lsock.settimeout(4.0)
            conn.enable()
            answered = 0
            for v in range(visits):
                c = None
                t0 = time.monotonic()
                while c is None and time.monotonic() - t0 < 6.0:
                    try:
                        c = lsock.accept()[0] if active else socket.create_connection(("127.0.0.1", port), timeout=1.0)
                    except OSError:
                        time.sleep(0.02)
                if c is None:
                    ctx.violation("B:no-connection:listener-converses-on-connect", {**wit, "visit": v, "events": list(seen["order"])})
                    return
                c.settimeout(3.0)
                try:
                    buf = b""
                    while len(buf) < 4:
                        chunk = c.recv(16)
                        if not chunk:
                            break
                        buf += chunk
                    if buf[:4] == b"ping":
                        c.sendall(b"pong")
                        answered += 1
                except OSError:
                    pass
                if not leave_at_once:
                    time.sleep(0.05)
                c.close()
                # the end of this connection is reported before the next visit
                end = time.monotonic() + 5
                while time.monotonic() < end and seen["order"].count("disconnected") < v + 1:
                    time.sleep(0.005)
            ctx.count("partB.listener_converses_on_connect_rounds")
            ctx.case(("B-listener-converses", r, active, leave_at_once), nontrivial=True)
            with lock:
                order = list(seen["order"])
                in_listener, late = seen["in_listener"], seen["late"]
            full = {**wit, "events": order, "answers_delivered_while_listener_waited": in_listener, "answers_delivered_later": late,
                    "peer_answered": answered}
            if answered == visits and in_listener < visits:
                ctx.violation("B:new-connection-not-usable-while-its-listeners-run", full)
                return
            want = []
            for _v in range(visits):
                want += ["connected", "listener-done:answered", "disconnected"]
            if answered == visits and order[:len(want)] != want:
                ctx.violation("B:connection-events-out-of-order:listener-converses-on-connect", {**full, "expected": want})
                return
        finally:
            th, ok, _box = _call(conn.disable, 5.0)
            if lsock is not None:
                lsock.close()
            if not ok:
                ctx.violation("B:disable-blocked-forever:listener-converses-on-connect" if stuck.blocked_forever([th], watch=0.5) or _spinning([th])
                              else "B:disable-did-not-return:listener-converses-on-connect", wit)
                return


def _application_disables_from_its_handler(ctx, rounds):
    """The application reacts to a message by taking the endpoint off line: disable() is called from within the
    message_received handler (the thread that delivers messages). The call must return, the state must be NOT CONNECTED, and
    after enable() the next connection must select and deliver. In-memory connection and real passive TCP endpoint."""
    from lib.hsmsrig import Rig

    rng = ctx.rng
    for r in range(rounds):
        real = r % 2 == 1
        returned = threading.Event()
        box = {}
        wit = {"transport": "tcp (passive)" if real else "in-memory", "scenario": "disable() called from the message_received handler"}
        if real:
            port = _free_port(ctx)
            ep = RealEndpoint(False, port)
            proto = ep.protocol
        else:
            rig = Rig(active=False)
            proto = rig.protocol

        def handler(data, proto=proto, returned=returned, box=box):
            if data["message"].header.system != 0x9001:
                return
            box["thread"] = threading.current_thread()
            try:
                proto.disable()
            except Exception as exc:  # noqa: BLE001
                box["exc"] = repr(exc)
            returned.set()
        proto.events.message_received += handler
        sock = None
        try:
            if real:
                proto.enable()
                end = time.monotonic() + 4
                while sock is None and time.monotonic() < end:
                    try:
                        sock = socket.create_connection(("127.0.0.1", port), timeout=1.0)
                    except OSError:
                        time.sleep(0.02)
                if sock is None:
                    ctx.unsure(f"application disables from its handler: no connection to the passive endpoint: {wit}")
                    continue
                sock.sendall(wire.hsms_control(wire.SELECT_REQ, 0x9000))
                fr = _recv_frames(sock, lambda f: any(x.stype == wire.SELECT_RSP for x in f))
                if not any(x.stype == wire.SELECT_RSP for x in fr):
                    ctx.unsure(f"application disables from its handler: not selected (other scenarios judge that): {wit}")
                    continue
                for _ in range(rng.choice([0, 0, 2])):
                    sock.sendall(wire.hsms_data(10, 3, False, 0x9100 + _, b"\x41\x02ok"))
                sock.sendall(wire.hsms_data(10, 3, False, 0x9001, b"\x41\x02ok"))
            else:
                if not rig.connect_and_select(system=0x9000):
                    ctx.unsure(f"application disables from its handler: not selected (other scenarios judge that): {wit}")
                    continue
                rig.pipe.feed(wire.hsms_data(10, 3, False, 0x9001, b"\x41\x02ok"))
            ctx.count("oracle.disable_called_from_message_handler")
            if not returned.wait(8.0):
                th = box.get("thread")
                if th is not None and (stuck.blocked_forever([th], watch=0.8, samples=4) or _spinning([th])):
                    ctx.violation("disable-called-from-message-handler-blocked-forever", {**wit, "stacks": stuck.stacks(8)})
                else:
                    ctx.unsure(f"disable() called from the message handler did not return within the watchdog: {wit}")
                return          # the worker has a wedged endpoint now: later scenarios of this part would be distorted
            if "exc" in box:
                ctx.violation("disable-called-from-message-handler-raises", {**wit, "error": box["exc"][:200]})
                continue
            end = time.monotonic() + 3
            while time.monotonic() < end and proto.connection_state.current.name != NC:
                time.sleep(0.002)
            if proto.connection_state.current.name != NC:
                ctx.violation("state-not-NOT_CONNECTED-after-disable-from-message-handler", {**wit, "state": proto.connection_state.current.name})
                continue
            # usable again
            th, ok, b2 = _call(proto.enable, 6.0)
            if not ok:
                ctx.violation("enable-after-disable-from-message-handler-blocked-forever" if stuck.blocked_forever([th], watch=0.5)
                              else "enable-after-disable-from-message-handler-did-not-return", {**wit, "stacks": stuck.stacks(8)})
                return
            if real:
                if sock is not None:
                    sock.close()
                sock = None
                end = time.monotonic() + 4
                while sock is None and time.monotonic() < end:
                    try:
                        sock = socket.create_connection(("127.0.0.1", port), timeout=1.0)
                    except OSError:
                        time.sleep(0.02)
                selected = False
                if sock is not None:
                    sock.sendall(wire.hsms_control(wire.SELECT_REQ, 0x9002))
                    fr = _recv_frames(sock, lambda f: any(x.stype == wire.SELECT_RSP for x in f))
                    selected = any(x.stype == wire.SELECT_RSP and x.system == 0x9002 for x in fr)
                    if selected:
                        sock.sendall(wire.hsms_data(10, 3, False, 0x9003, b"\x41\x02ok"))
                delivered = lambda: (0x9003, b"\x41\x02ok") in ep.delivered
            else:
                selected = rig.connect_and_select(system=0x9002)
                if selected:
                    rig.pipe.feed(wire.hsms_data(10, 3, False, 0x9003, b"\x41\x02ok"))
                delivered = lambda: any(m["system"] == 0x9003 and m["body"] == b"\x41\x02ok" for m in rig.delivered)
            if not selected:
                ctx.violation("no-select-after-disable-from-message-handler-and-enable", {**wit, "state": proto.connection_state.current.name})
                continue
            end = time.monotonic() + 3
            while time.monotonic() < end and not delivered():
                time.sleep(0.002)
            if not delivered():
                ctx.violation("no-delivery-after-disable-from-message-handler-and-enable", wit)
        finally:
            if sock is not None:
                sock.close()
            _call(proto.disable, 5.0)
            for t in vtime.pending(owner=proto):
                t.cancel()


def part_b(ctx, n):
    _application_disables_from_its_handler(ctx, 2 if ctx.quick else 20)
    _listener_converses_on_connect(ctx, 2 if ctx.quick else 12)
    if ctx.shard < 4:
        _forced_disable_race(ctx, active=ctx.shard % 2 == 0)
    if 4 <= ctx.shard < 8 or ctx.nshards < 8:
        _peer_leaves_at_once(ctx, 12 if ctx.quick else 200)
    if 8 <= ctx.shard < 12 or ctx.nshards < 12:
        _forced_restart_race(ctx, active=ctx.shard % 2 == 0)
    inj = sched.YieldInjector(["secsgem/common/tcp_connection.py", "secsgem/common/tcp_server_connection.py",
                               "secsgem/common/tcp_client_connection.py"])
    inj.install()
    try:
        state = {"abort": False}
        for i in range(n):
            if state["abort"]:
                break
            _scenario_b(ctx, inj, i, state)
    finally:
        inj.uninstall()


def run(ctx):
    vtime.install()
    part_a(ctx)
    part_b(ctx, 12 if ctx.quick else 150)
