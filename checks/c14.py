"""C14 - the Item API agrees with SEMI E5 and with the variables API on every value.

Monitors: Item constructors (all accepted input forms) -> .value / .encode() vs the independent codec;
Item.decode of foreign valid encodings (non-minimal length bytes, float bit patterns) -> re-encode canonical;
variables-API bytes vs item-API bytes for the same typed value; Item.from_value type selection.
"""

from __future__ import annotations

import math

from lib import e5ref, gen, sv

PROPERTY = "C14"
LEVEL = "exploration"
RULE = ("typed E5 trees from seeded boundary-biased generators given to the Item classes in every constructor form "
        "(scalar, list, bytes, str, int lists, nested lists and dicts for ItemL), reference encodings with forced "
        "1-3 length bytes given to Item.decode, plain Python values given to Item.from_value (all width boundaries "
        "+-1 enumerated); distinct by (oracle, form, reference bytes); non-trivial when the constructor accepted the value; plus: items built from a list that the caller changes afterwards")
ASSUMPTIONS = ["lib/e5ref.py implements SEMI E5 item encoding", "text is restricted to what the item's character set can "
               "represent (latin-1 for A, JIS X 0201 for J)", "float inputs of from_value are recorded but not judged "
               "(the property lists bool, int, str, bytes, list)"]
LEVEL_TEXT = ("Differential runtime monitoring of the second item API against the reference codec and against the "
              "variables API; width boundaries of from_value and the constructor-form matrix are enumerated, values sampled.")
LEVEL_NOTE = "Trusts lib/e5ref.py; sampled values."
TECHNIQUE = "runtime differential oracle (reference codec + cross-API comparison) over generated inputs"
SHARDS = {"quick": 8, "thorough": 16}
TIMEOUT = {"quick": 240, "thorough": 3000}
FLOORS = {"oracle.construct": 3000, "oracle.decode": 3000, "oracle.cross_api": 2000, "oracle.from_value": 1000,
          "enumerated.from_value_boundaries": 60, "enumerated.form_matrix": 20}


def _items():
    from secsgem.secs import items as I

    return I, {
        "L": I.ItemL, "B": I.ItemB, "BOOLEAN": I.ItemBOOLEAN, "A": I.ItemA, "J": I.ItemJ,
        "U1": I.ItemU1, "U2": I.ItemU2, "U4": I.ItemU4, "U8": I.ItemU8,
        "I1": I.ItemI1, "I2": I.ItemI2, "I4": I.ItemI4, "I8": I.ItemI8, "F4": I.ItemF4, "F8": I.ItemF8,
    }


def item_value_expected(tree):
    """What Item.value must return (documented convention: single element collapses, text str, binary bytes)."""
    fmt, val = tree
    if fmt == "L":
        return [item_value_expected(c) for c in val]
    if fmt == "B":
        return bytes(val)
    if fmt == "A":
        return bytes(val).decode("latin-1")
    if fmt == "J":
        return sv.jis_text(val)
    if fmt == "BOOLEAN":
        return bool(val[0]) if len(val) == 1 else [bool(v) for v in val]
    return val[0] if len(val) == 1 else list(val)


def item_forms(tree, rng):
    """All constructor input forms with an unambiguous denotation for a leaf tree."""
    fmt, val = tree
    forms = []
    if fmt == "B":
        forms.append(("bytes", bytes(val)))
        forms.append(("int-list", list(val)))
        if len(val) == 1:
            forms.append(("int", val[0]))
        forms.append(("bytes-list", [bytes(val[:1]), bytes(val[1:])] if len(val) > 1 else [bytes(val)]))
        if all(b < 0x80 for b in val):
            forms.append(("str", bytes(val).decode("ascii")))
    elif fmt == "BOOLEAN":
        forms.append(("bool-list", [bool(v) for v in val]))
        forms.append(("int-list", [1 if v else 0 for v in val]))
        if len(val) == 1:
            forms.append(("bool", bool(val[0])))
            forms.append(("int", 1 if val[0] else 0))
    elif fmt in ("A", "J"):
        forms.append(("str", bytes(val).decode("latin-1") if fmt == "A" else sv.jis_text(val)))
        forms.append(("bytes", bytes(val)))
    else:
        forms.append(("list", list(val)))
        if len(val) == 1:
            forms.append(("scalar", val[0]))
    return forms


def to_item(tree, Icls):
    fmt, val = tree
    if fmt == "L":
        return Icls["L"]([to_item(c, Icls) for c in val])
    if fmt in ("A", "J", "B"):
        return Icls[fmt](bytes(val))
    if fmt == "BOOLEAN":
        return Icls[fmt]([bool(v) for v in val])
    return Icls[fmt](list(val))


def _construct_case(ctx, Icls, tree, form, value):
    fmt = tree[0]
    ref = e5ref.encode(tree)
    wit = {"class": "Item" + fmt, "form": form, "input": value if not isinstance(value, list) or len(value) < 20 else value[:20],
           "tree": gen.describe(tree), "reference": ref[:80]}
    try:
        item = Icls[fmt](value)
    except Exception as exc:
        ctx.count("rejected.construct")
        ctx.case(("construct", fmt, form, "rejected", ref[:64]), nontrivial=False)
        return
    ctx.case(("construct", fmt, form, ref if len(ref) < 2048 else (ref[:64], len(ref), hash(ref))))
    ctx.count("oracle.construct")
    try:
        enc = item.encode()
    except Exception as exc:
        ctx.violation(f"encode-raises:{fmt}:{form}:{type(exc).__name__}", {**wit, "error": repr(exc)[:200]})
        return
    if enc != ref:
        ctx.violation(f"encode-mismatch:{fmt}:{form}", {**wit, "encoded": enc[:80]})
    try:
        got = item.value
        if not sv.same_value(got, item_value_expected(tree), f4=True):
            ctx.violation(f"value-mismatch:{fmt}:{form}", {**wit, "got": got, "expected": item_value_expected(tree)})
    except Exception as exc:
        ctx.violation(f"value-raises:{fmt}:{form}:{type(exc).__name__}", {**wit, "error": repr(exc)[:200]})
        return
    # the item holds *that value*: what the caller does with his own list afterwards does not reach into the item
    if isinstance(value, list) and value:
        ctx.count("oracle.construct_then_caller_changes_his_list")
        try:
            value.append(value[0])
            value[0] = value[-1] if value[-1] != value[0] else (not value[0] if isinstance(value[0], bool) else value[0])
            del value[len(value) // 2:]
            enc2 = item.encode()
        except Exception as exc:
            ctx.violation(f"item-aliases-the-callers-list:{fmt}:{form}:{type(exc).__name__}", {**wit, "error": repr(exc)[:200]})
            return
        if enc2 != ref:
            ctx.violation(f"item-aliases-the-callers-list:{fmt}:{form}", {**wit, "encoded_after_the_list_was_changed": enc2[:80]})


def _decode_case(ctx, I, tree, data, mech):
    canon = e5ref.encode(tree)
    ctx.case(("decode", data if len(data) < 2048 else (data[:64], len(data), hash(data))))
    ctx.count("oracle.decode")
    wit = {"input": data[:120], "tree": gen.describe(tree)}
    try:
        item = I.Item.decode(data)
    except Exception as exc:
        ctx.violation(f"decode-raises:{mech}:{type(exc).__name__}", {**wit, "error": repr(exc)[:200]})
        return
    try:
        enc = item.encode()
        if enc != canon:
            ctx.violation(f"decode-reencode-not-canonical:{mech}", {**wit, "encoded": enc[:120], "canonical": canon[:120]})
        if type(item).__name__ != "Item" + tree[0]:
            ctx.violation(f"decode-wrong-class:{mech}", {**wit, "class": type(item).__name__})
        if not sv.same_value(item.value, item_value_expected(tree)):
            ctx.violation(f"decode-value-mismatch:{mech}", {**wit, "got": item.value, "expected": item_value_expected(tree)})
    except Exception as exc:
        ctx.violation(f"decode-then-raises:{mech}:{type(exc).__name__}", {**wit, "error": repr(exc)[:200]})


def _cross_case(ctx, Icls, tree):
    """Both APIs must produce identical bytes for the same typed value."""
    ctx.count("oracle.cross_api")
    ref = e5ref.encode(tree)
    ctx.case(("cross", ref if len(ref) < 2048 else (ref[:64], len(ref), hash(ref))))
    try:
        a = sv.to_variable(tree).encode()
    except Exception:
        ctx.count("rejected.cross_variables")
        return
    try:
        b = to_item(tree, Icls).encode()
    except Exception as exc:
        ctx.violation(f"cross-api:item-rejects-what-variables-accepts:{tree[0]}:{type(exc).__name__}",
                      {"tree": gen.describe(tree), "variables_bytes": a[:80], "error": repr(exc)[:200]})
        return
    if a != b:
        ctx.violation(f"cross-api-bytes-differ:{tree[0]}", {"tree": gen.describe(tree), "variables": a[:80], "items": b[:80]})


def ref_from_value(v):
    """Documented type selection of Item.from_value as a tree."""
    if isinstance(v, bool):
        return ("BOOLEAN", [v])
    if isinstance(v, str):
        return ("A", v.encode("latin-1"))
    if isinstance(v, bytes):
        return ("B", v)
    if isinstance(v, list):
        return ("L", [ref_from_value(x) for x in v])
    if isinstance(v, dict):
        return ("L", [ref_from_value(x) for x in v.values()])
    if isinstance(v, int):
        if v >= 0:
            for f in ("U1", "U2", "U4", "U8"):
                if v <= e5ref.NUM[f][3]:
                    return (f, [v])
        else:
            for f in ("I1", "I2", "I4", "I8"):
                if v >= e5ref.NUM[f][2]:
                    return (f, [v])
        return None
    raise TypeError(v)


def _plain(rng, depth):
    r = rng.random()
    if depth > 0 and r < 0.3:
        return [_plain(rng, depth - 1) for _ in range(rng.randint(0, 4))]
    if r < 0.45:
        return rng.random() < 0.5
    if r < 0.6:
        return gen.text_bytes(rng, rng.randint(0, 8), "A").decode("latin-1")
    if r < 0.7:
        return bytes(rng.getrandbits(8) for _ in range(rng.randint(0, 8)))
    fmt = rng.choice(e5ref.INT_FMTS)
    return gen.number(rng, fmt)


def _from_value_case(ctx, I, v, enumerated=False):
    tree = ref_from_value(v)
    ctx.count("oracle.from_value")
    ctx.case(("from_value", repr(v)[:300]))
    wit = {"value": repr(v)[:300]}
    try:
        item = I.Item.from_value(v)
    except Exception as exc:
        if tree is None:
            ctx.count("from_value.unrepresentable_rejected")
            return
        ctx.violation(f"from_value-raises:{tree[0]}:{type(exc).__name__}", {**wit, "error": repr(exc)[:200]})
        return
    if tree is None:
        ctx.violation("from_value-accepts-integer-no-width-holds", {**wit, "class": type(item).__name__})
        return
    try:
        enc = item.encode()
        if type(item).__name__ != "Item" + tree[0]:
            ctx.violation(f"from_value-wrong-type:{tree[0]}", {**wit, "chosen": type(item).__name__, "expected": "Item" + tree[0]})
        elif enc != e5ref.encode(tree):
            ctx.violation(f"from_value-bytes:{tree[0]}", {**wit, "encoded": enc[:80], "reference": e5ref.encode(tree)[:80]})
        if not sv.same_value(item.value, item_value_expected(tree)):
            ctx.violation(f"from_value-changes-value:{tree[0]}", {**wit, "got": item.value})
    except Exception as exc:
        ctx.violation(f"from_value-then-raises:{tree[0]}:{type(exc).__name__}", {**wit, "error": repr(exc)[:200]})


def _finite_no_unassigned(tree):
    fmt, val = tree
    if fmt == "L":
        return all(_finite_no_unassigned(c) for c in val)
    if fmt in ("F4", "F8"):
        return all(math.isfinite(v) for v in val)
    return True


def run(ctx):
    I, Icls = _items()
    rng = ctx.rng
    if ctx.shard == 0:
        # enumerated: from_value at every width boundary +-1, both signs
        bounds = set()
        for p in (7, 8, 15, 16, 31, 32, 63, 64):
            for d in (-2, -1, 0, 1, 2):
                bounds.add(2**p + d)
                bounds.add(-(2**p) + d)
        bounds.update({0, 1, -1, 127, 128, 255, 256})
        for v in sorted(bounds):
            _from_value_case(ctx, I, v, True)
            ctx.count("enumerated.from_value_boundaries")
        for v in (True, False, "", "a", b"", b"\x00", [], [[]], [True, 1, "x", b"y", [2, -2]]):
            _from_value_case(ctx, I, v, True)
        ctx.exhaustive["from_value_width_boundaries"] = True
        # enumerated: constructor-form matrix per class at lengths 0,1,2,3
        for fmt in gen.LEAF_FMTS:
            for n in (0, 1, 2, 3):
                tree = gen.leaf(rng, fmt, n=n)
                for form, value in item_forms(tree, rng):
                    _construct_case(ctx, Icls, tree, form, value)
                    ctx.count("enumerated.form_matrix")
        ctx.exhaustive["constructor_form_matrix"] = True
        # all single bytes for A, J, B
        for fmt in ("A", "J", "B"):
            for b in range(256):
                if fmt == "J" and b not in e5ref.JIS8:
                    continue
                tree = (fmt, bytes([b]))
                for form, value in item_forms(tree, rng):
                    _construct_case(ctx, Icls, tree, form, value)
                _decode_case(ctx, I, tree, e5ref.encode(tree), f"{fmt}:single-byte")
        # every byte value inside a BOOLEAN body: anything but zero is TRUE (as the variables API reads it, C02),
        # and the item re-encodes canonically
        for b in range(256):
            _decode_case(ctx, I, ("BOOLEAN", [b != 0]), bytes([0x25, 1, b]), "BOOLEAN:any-byte")
            _decode_case(ctx, I, ("BOOLEAN", [False, b != 0, True]), bytes([0x25, 3, 0, b, 255 - (b % 200)]), "BOOLEAN:any-byte")
            ctx.count("enumerated.boolean_bytes")
        for fmt in gen.LEAF_FMTS + ["L"]:
            for nlen in (1, 2, 3):
                tree = ("L", [("U1", [1]), ("A", b"x")]) if fmt == "L" else gen.leaf(rng, fmt, n=2)
                _decode_case(ctx, I, tree, e5ref.encode(tree, lambda path, need: nlen), f"{fmt}:len{nlen}")
        for bits in gen.F4_SPECIAL_BITS:
            x = gen.f4_from_bits(bits)
            _decode_case(ctx, I, ("F4", [x]), e5ref.encode(("F4", [x])), "F4:bits")
            _construct_case(ctx, Icls, ("F4", [x]), "scalar", x)
        for bits in gen.F8_SPECIAL_BITS:
            x = gen.f8_from_bits(bits)
            _decode_case(ctx, I, ("F8", [x]), e5ref.encode(("F8", [x])), "F8:bits")
            _construct_case(ctx, Icls, ("F8", [x]), "scalar", x)
        # length-byte boundaries
        for fmt, n in (("B", 255), ("B", 256), ("A", 65535), ("A", 65536), ("U2", 128), ("U8", 8192), ("U1", 65536), ("B", 70000)):
            tree = gen.leaf(rng, fmt, n=n)
            for form, value in item_forms(tree, rng)[:2]:
                _construct_case(ctx, Icls, tree, form, value)
            _decode_case(ctx, I, tree, e5ref.encode(tree), f"{fmt}:boundary")
            _cross_case(ctx, Icls, tree)
        big = ("L", [("U1", [3])] * 256)
        _decode_case(ctx, I, big, e5ref.encode(big), "L:boundary")
        _cross_case(ctx, Icls, big)
    n = 8000 if ctx.quick else 900000
    for i in range(n):
        r = i % 10
        if r < 3:
            tree = gen.leaf(rng, big=True)
            forms = item_forms(tree, rng)
            form, value = rng.choice(forms)
            _construct_case(ctx, Icls, tree, form, value)
            if i < 2:
                ctx.sample({"class": "Item" + tree[0], "form": form, "tree": gen.describe(tree), "reference": e5ref.encode(tree)[:40]})
        elif r < 4:
            # F4 built from an arbitrary double
            x = gen.finite_f8(rng) if rng.random() < 0.5 else rng.choice([0.1, 3.40282e38, 1e-45, 3.4028234e38, 16777217.0])
            try:
                x32 = e5ref.f32(x)
            except OverflowError:
                continue
            if math.isinf(x32):
                continue
            _construct_case(ctx, Icls, ("F4", [x32]), "double", x)
        elif r < 7:
            tree = gen.tree(rng, rng.choice([1, 2, 3, 5]), 4)
            if not _finite_no_unassigned(tree):
                continue
            p = rng.choice([0.0, 0.5, 1.0])
            data = e5ref.encode(tree, lambda path, need: rng.randint(need, 3) if rng.random() < p else need)
            _decode_case(ctx, I, tree, data, f"{tree[0]}")
            ctx.maximum("nesting_depth", gen.depth_of(tree))
        elif r < 9:
            tree = gen.tree(rng, rng.choice([0, 1, 3]), 4)
            _cross_case(ctx, Icls, tree)
            # ItemL from nested trees of Items
            if tree[0] == "L":
                try:
                    enc = to_item(tree, Icls).encode()
                    ctx.count("oracle.construct")
                    if enc != e5ref.encode(tree):
                        ctx.violation("encode-mismatch:L:items", {"tree": gen.describe(tree), "encoded": enc[:80]})
                except Exception:
                    ctx.count("rejected.construct")  # (the cross-API oracle above judges rejections)
        else:
            v = _plain(rng, 3)
            _from_value_case(ctx, I, v)
            if isinstance(v, list):
                # ItemL built directly from plain nested lists / dicts must agree too
                tree = ref_from_value(v)
                if tree is not None and all(True for _ in [0]):
                    try:
                        asdict = {f"k{j}": x for j, x in enumerate(v)}
                        for form, value in (("plain-list", v), ("dict", asdict)):
                            enc = Icls["L"](value).encode()
                            ctx.count("oracle.construct")
                            if enc != e5ref.encode(tree):
                                ctx.violation(f"encode-mismatch:L:{form}", {"value": repr(v)[:300], "encoded": enc[:80]})
                    except Exception as exc:
                        if _representable(v):
                            ctx.violation(f"encode-raises:L:plain:{type(exc).__name__}", {"value": repr(v)[:300], "error": repr(exc)[:200]})


def _representable(v):
    if isinstance(v, list):
        return all(_representable(x) for x in v)
    if isinstance(v, int) and not isinstance(v, bool):
        return -(2**63) <= v < 2**64
    return True
