"""C08 - every primary expecting a reply is answered exactly once, with the same system bytes.

Real GEM host and equipment handlers in COMMUNICATING state receive sequences of primaries (handled functions,
catalogued-but-unhandled, uncatalogued; well-formed, empty, truncated, random and wrong-typed bodies; user
callbacks that return, raise, or are unregistered). A wire monitor counts, per injected primary, the outbound
data frames carrying its system bytes and checks their stream/function (and the S9F5 body).
"""

from __future__ import annotations

import itertools
import threading
import time

from checks.c03 import _items_catalogue, build
from checks.c19 import parse_shipped
from lib import e5ref, gen, stuck, vtime, wire

PROPERTY = "C08"
LEVEL = "exploration"
RULE = ("sequences of 1-30 primaries against host and equipment handlers: S/F drawn from the handler's callbacks, catalogued "
        "functions without callback and uncatalogued numbers (streams 1..127 x odd functions); bodies structure-conforming "
        "(C03 generator), empty, truncated, random bytes, wrong item type; with and without W-bit; user callbacks registered "
        "through register_stream_function that return a secondary, raise, or are unregistered again (also after they served "
        "a primary); a primary that reuses the system bytes of a request of the handler that ran into T3; distinct by "
        "(role, S/F, W, body class, body bytes); non-trivial when the W-bit is set or a callback exists; plus: a quarter of the sequences run on a handler that was disabled and enabled again once or twice; W-bit primaries over a scripted SECS-I line (single block numbered 1 or 0, two blocks; with callback, without, uncatalogued)")
ASSUMPTIONS = ["a library callback that does not read the body may answer a malformed body with its normal secondary: the "
               "allowed replies to a handled primary are {S,F+1} and {S,0}", "a failing callback on a message without W-bit may "
               "or may not emit SxF0 (the statement constrains only the no-error case)",
               "frames with other system bytes are the handler's own primaries (answered by the scripted peer)"]
LEVEL_TEXT = ("Runtime wire monitoring of real handlers against the reply rules of the statement over sampled message sequences; "
              "every callback of both roles and every reply class is exercised (floors enforce it).")
LEVEL_NOTE = "Sampled inputs; the reply rules are those of the property statement, not derived from the code."
TECHNIQUE = "runtime wire monitor (exactly-once / same-system-bytes reply oracle) over generated primaries"
SHARDS = {"quick": 8, "thorough": 16}
TIMEOUT = {"quick": 400, "thorough": 3400}
FLOORS = {"oracle.secsi_primaries": 40, "expected.secondary.equipment": 20, "expected.secondary.host": 20, "expected.s9f5.equipment": 20, "expected.s9f5.host": 20,
          "expected.abort_or_secondary.equipment": 20, "expected.abort_or_secondary.host": 20, "expected.none.equipment": 20,
          "expected.none.host": 20, "expected.user_abort": 10, "user_callback.lifecycle_probes": 20,
          "collision_probe.primaries_reusing_system_bytes_of_a_timed_out_request": 5}


def _callbacks(handler, classes):
    return sorted((s, f) for (s, f) in classes if f"s{s:02d}f{f:02d}" in handler.callbacks)


def _bodies(rng, cls, cat, kind):
    """Body bytes for a catalogued function class `cls` (or None) of a given kind."""
    if kind == "empty":
        return b""
    if kind == "random":
        return rng.randbytes(rng.randint(1, 12))
    if kind == "wrongtype":
        return e5ref.encode(rng.choice([("A", b"xyz"), ("U4", [7]), ("L", [("L", [])]), ("BOOLEAN", [True, False]), ("F8", [1.5])]))
    if cls is None or cls._data_format is None:
        return b""
    ast = parse_shipped(cls._data_format)
    tree = build(ast, cat, rng, set())[0]
    body = e5ref.encode(tree)
    if kind == "truncated" and len(body) > 1:
        return body[:rng.randint(1, len(body) - 1)]
    return body


def _sequence(ctx, role, classes, cat, seqlen):
    from lib.gemrig import GemRig
    import secsgem.secs.functions as F

    rng = ctx.rng
    rig = GemRig(role=role, active=rng.random() < 0.3, t3=1.0)
    if not rig.establish():
        ctx.unsure("precondition failed: the handler did not reach COMMUNICATING with a cooperative peer (C07/C20 judge that)")
        rig.shutdown()
        return
    handler = rig.handler
    if rng.random() < 0.25:
        # a handler that was disabled and enabled again (second, third enable period) answers like a fresh one
        ok = True
        for _ in range(rng.choice([1, 2])):
            ok = rig.close(5.0)
            if not ok:
                break
            handler.enable()
            if not rig.establish():
                ok = False
                break
        if not ok:
            ctx.unsure("precondition failed: the handler did not come back after disable + enable (C07/C09/C20 judge that)")
            rig.shutdown()
            return
        ctx.count("sequences.after_disable_and_enable")
    handled = _callbacks(handler, classes)
    unhandled = sorted(k for k in classes if k not in handled and k[1] % 2 == 1)
    sysgen = gen.system_bytes(rng, 0x40000000 + rng.randrange(1 << 16) * 64)
    # user callbacks through the public API
    user = {}
    for _ in range(rng.randint(0, 2)):
        s, f = rng.choice(unhandled + [(99, 1), (64, 3), (3, 21)])
        mode = rng.choice(["return", "raise", "unregister"])
        if mode == "return":
            sec = classes.get((s, f + 1))
            if sec is None or sec._data_format is not None:
                s, f = 1, 1   # header-only secondary exists for S1F1? no -> use a function whose secondary is header-only
                sec = None
            def cb(h, m, sec=sec, s=s):
                return (sec() if sec is not None else h.stream_function(s, 0)())
            handler.register_stream_function(s, f, cb)
            user[(s, f)] = "return" if sec is not None else "return-abort"
        elif mode == "raise":
            def cb(h, m):
                raise RuntimeError("user callback fails")
            handler.register_stream_function(s, f, cb)
            user[(s, f)] = "raise"
        else:
            handler.register_stream_function(s, f, lambda h, m: None)
            handler.unregister_stream_function(s, f)
            user[(s, f)] = "unregistered"
    if role == "equipment" and rng.random() < 0.5:
        # a failing remote command callback (user level)
        def rcmd_fail(**kw):
            raise RuntimeError("remote command fails")
        handler.callbacks.rcmd_START = rcmd_fail
        user["rcmd_START"] = "raise"
    injected = []
    start = rig.n_frames()

    def answered():
        have = {f.system for _, f in rig.data_frames(start)}
        return all((not p["wbit"]) or p["system"] in have for p in injected)

    def mutate_registrations():
        """Change the user callbacks in the middle of the sequence (only at a quiescent point, so that the registration
        in force for every injected primary is unambiguous)."""
        if not rig.wait(answered, timeout=10.0):
            rig.confirm_absent(answered, 0.4)
        rig.quiesce(1.0)
        keys = [k for k in user if isinstance(k, tuple)]
        if not keys:
            return
        key = rng.choice(keys)
        s, f = key
        action = rng.choice(["unregister", "raise", "return-abort"])
        if action == "unregister":
            handler.unregister_stream_function(s, f)
            user[key] = "unregistered"
        elif action == "raise":
            def cb(h, m):
                raise RuntimeError("user callback fails")
            handler.register_stream_function(s, f, cb)
            user[key] = "raise"
        else:
            handler.register_stream_function(s, f, lambda h, m, s=s: h.stream_function(s, 0)() if (s, 0) in classes else (_ for _ in ()).throw(RuntimeError("no abort class")))
            user[key] = "return-abort" if (s, 0) in classes else "raise"
        ctx.count("user_callback.changed_mid_sequence")

    for _ in range(seqlen):
        r = rng.random()
        wbit = rng.random() < 0.75
        if user and rng.random() < 0.12:
            mutate_registrations()
        if r < 0.45 and handled:
            s, f = rng.choice(handled)
            cls = classes.get((s, f))
            kind = rng.choice(["conforming", "conforming", "conforming", "empty", "truncated", "random", "wrongtype"])
            body = _bodies(rng, cls, cat, kind)
            if (s, f) == (2, 41) and rng.random() < 0.6:
                body = F.SecsS02F41({"RCMD": rng.choice(["START", "STOP", "NOPE"]), "PARAMS": []}).encode()
                kind = "conforming"
            expect = "handled"
        elif r < 0.66 and user:
            key = rng.choice([k for k in user if isinstance(k, tuple)] or [None])
            if key is None:
                continue
            s, f = key
            kind = "empty"
            body = b""
            expect = {"return": "secondary", "return-abort": "abort", "raise": "abort", "unregistered": "s9f5"}[user[key]]
            if user[key] == "unregistered" and f"s{s:02d}f{f:02d}" in handler.callbacks:
                expect = "handled"
        elif r < 0.80 and unhandled:
            s, f = rng.choice(unhandled)
            if (s, f) in user:
                continue
            kind = rng.choice(["conforming", "empty", "random"])
            body = _bodies(rng, classes.get((s, f)), cat, kind)
            expect = "s9f5"
        else:
            s, f = rng.randint(1, 127), rng.choice(range(1, 254, 2))
            if (s, f) in classes or (s, f) in user:
                continue
            kind = rng.choice(["empty", "random", "wrongtype"])
            body = _bodies(rng, None, cat, kind)
            expect = "s9f5"
        system = next(sysgen)
        session = rng.choice([0, 0, 1, 0xFFFF])
        header = bytes([session >> 8, session & 0xFF, (0x80 if wbit else 0) | s, f, 0, 0]) + system.to_bytes(4, "big")
        rig.injected_systems.add(system)
        from lib import wire
        rig.pipe.feed(wire.hsms_data(s, f, wbit, system, body, session=session))
        injected.append({"system": system, "s": s, "f": f, "wbit": wbit, "kind": kind, "expect": expect, "header": header, "body": body})
        ctx.case((role, s, f, wbit, kind, body), nontrivial=wbit or expect == "handled")
    # wait until every W primary has an answer or nothing moves
    if not rig.wait(answered, timeout=10.0):
        rig.confirm_absent(answered, 0.4)
    rig.quiesce(2.0)
    frames = rig.data_frames(start)
    by_sys = {}
    for _, f in frames:
        by_sys.setdefault(f.system, []).append(f)
    for p in injected:
        mine = by_sys.get(p["system"], [])
        label = f"S{p['s']}F{p['f']}"
        wit = {"role": role, "primary": f"{label}{'W' if p['wbit'] else ''}", "body_kind": p["kind"], "body": p["body"][:40],
               "expected": p["expect"], "replies": [f.describe() for f in mine], "user_callbacks": {str(k): v for k, v in user.items()}}
        sf = [(f.stream, f.function) for f in mine]
        if p["wbit"]:
            if p["expect"] == "s9f5":
                ctx.count(f"expected.s9f5.{role}")
                ok = sf == [(9, 5)]
                if ok:
                    try:
                        tree = e5ref.decode_all(mine[0].body)
                        ok = tree[0] == "B" and bytes(tree[1]) == p["header"]
                    except Exception:
                        ok = False
                    if not ok:
                        ctx.violation("s9f5-does-not-carry-the-received-header", {**wit, "received_header": p["header"]})
                        continue
                if not ok:
                    ctx.violation(f"unhandled-primary-not-answered-by-one-S9F5:{len(mine)}-replies", wit)
            elif p["expect"] == "abort":
                ctx.count("expected.user_abort")
                if sf != [(p["s"], 0)]:
                    ctx.violation(f"failing-callback-not-answered-by-one-abort:{len(mine)}-replies", wit)
            elif p["expect"] == "secondary":
                ctx.count(f"expected.secondary.{role}")
                if sf != [(p["s"], p["f"] + 1)]:
                    ctx.violation(f"user-callback-secondary-not-sent-once:{len(mine)}-replies", wit)
            else:
                conforming = p["kind"] == "conforming"
                ctx.count(f"expected.secondary.{role}" if conforming else f"expected.abort_or_secondary.{role}")
                allowed = [(p["s"], p["f"] + 1), (p["s"], 0)]
                if len(sf) != 1 or sf[0] not in allowed:
                    ctx.violation(f"handled-primary-not-answered-exactly-once:{label}:{len(mine)}-replies", wit)
        else:
            ctx.count(f"expected.none.{role}")
            if mine:
                aborts_only = all(f.function == 0 for f in mine)
                if aborts_only and len(mine) == 1:
                    # the callback may have failed (unknown ids, malformed body): the statement leaves this case open
                    ctx.count("lenient.abort_for_failed_no_w_message")
                elif len(mine) == 1 and (mine[0].stream, mine[0].function) == (p["s"], p["f"] + 1):
                    ctx.violation("secondary-sent-for-primary-without-W-bit", wit)
                else:
                    ctx.violation(f"unexpected-frames-for-primary-without-W-bit:{len(mine)}", wit)
    if ctx.evaluations < 40:
        ctx.sample({"role": role, "sequence": [f"S{p['s']}F{p['f']}{'W' if p['wbit'] else ''}:{p['kind']}->{p['expect']}" for p in injected][:10]})
    _lifecycle_probe(ctx, rig, role, classes, user, sysgen)
    if rng.random() < 0.25:
        _collision_probe(ctx, rig, role, sysgen)
    rig.shutdown()


def _one(ctx, rig, s, f, system, body=b"", timeout=6.0):
    """Inject one W primary and return the data frames that carry its system bytes."""
    from lib import wire

    n0 = rig.n_frames()
    rig.injected_systems.add(system)
    rig.pipe.feed(wire.hsms_data(s, f, True, system, body))

    def got():
        return any(fr.system == system for _, fr in rig.data_frames(n0))
    if not rig.wait(got, timeout=timeout):
        rig.confirm_absent(got, 0.4)
    rig.quiesce(0.5)
    return [fr for _, fr in rig.data_frames(n0) if fr.system == system]


def _lifecycle_probe(ctx, rig, role, classes, user, sysgen):
    """One user callback through its life: registered -> serves a primary -> unregistered -> the same primary again."""
    handler = rig.handler
    cands = [(s, f) for (s, f) in [(99, 1), (64, 3), (3, 21), (12, 1), (13, 3)] if (s, f) not in user and f"s{s:02d}f{f:02d}" not in handler.callbacks]
    if not cands:
        return
    s, f = ctx.rng.choice(cands)
    calls = []

    def cb(h, m):
        calls.append(m.header.system)
        raise RuntimeError("user callback fails")      # answered with the stream's abort
    handler.register_stream_function(s, f, cb)
    wit = {"role": role, "primary": f"S{s}F{f}W", "history": "register, primary, unregister, primary"}
    sys1 = next(sysgen)
    first = _one(ctx, rig, s, f, sys1)
    ctx.count("expected.user_abort")
    if [(x.stream, x.function) for x in first] != [(s, 0)] or calls != [sys1]:
        ctx.violation(f"failing-callback-not-answered-by-one-abort:{len(first)}-replies", {**wit, "replies": [x.describe() for x in first], "callback_calls": len(calls)})
        return
    handler.unregister_stream_function(s, f)
    sys2 = next(sysgen)
    second = _one(ctx, rig, s, f, sys2)
    ctx.count("user_callback.lifecycle_probes")
    ctx.case(("lifecycle", role, s, f), nontrivial=True)
    header = bytes([0, 0, 0x80 | s, f, 0, 0]) + sys2.to_bytes(4, "big")
    ok = [(x.stream, x.function) for x in second] == [(9, 5)]
    if ok:
        try:
            tree = e5ref.decode_all(second[0].body)
            ok = tree[0] == "B" and bytes(tree[1]) == header
        except Exception:
            ok = False
    if not ok or len(calls) != 1:
        ctx.violation("unregistered-callback-still-serves-primaries" if len(calls) != 1 else f"unhandled-primary-not-answered-by-one-S9F5:{len(second)}-replies",
                      {**wit, "replies": [x.describe() for x in second], "callback_calls_after_unregister": len(calls) - 1})


def _collision_probe(ctx, rig, role, sysgen):
    """A request of the handler runs into T3; afterwards the peer happens to use the same system bytes for a primary of its
    own (each side numbers its transactions independently). The primary must be answered like any other."""
    import threading

    import secsgem.secs.functions as F
    from lib import stuck

    handler = rig.handler
    held = []
    old = rig.auto_policy.get((1, 1))
    rig.auto_policy[(1, 1)] = lambda fr: (held.append(fr), None)[1]      # never answered
    box = {}
    done = threading.Event()

    @stuck.harness_thread
    def run():
        try:
            box["r"] = handler.send_and_waitfor_response(F.SecsS01F01())
        except Exception as exc:
            box["exc"] = repr(exc)
        done.set()
    threading.Thread(target=run, daemon=True, name="harness-requester").start()
    ok = done.wait(8.0)        # T3 of this rig is 1 s
    if old is None:
        rig.auto_policy.pop((1, 1), None)
    else:
        rig.auto_policy[(1, 1)] = old
    if not ok or not held or box.get("r") is not None or "exc" in box:
        ctx.count("collision_probe.not_set_up")
        return
    system = held[-1].system
    replies = _one(ctx, rig, 1, 1, system)        # S1F1 W: are you there
    ctx.count("collision_probe.primaries_reusing_system_bytes_of_a_timed_out_request")
    ctx.case(("collision", role), nontrivial=True)
    # S1F2, or S1F0 from an equipment whose control state is OFF-LINE: one reply with these system bytes either way
    if len(replies) != 1 or (replies[0].stream, replies[0].function) not in ((1, 2), (1, 0)):
        ctx.violation(f"primary-with-system-bytes-of-a-timed-out-request-not-answered:{len(replies)}-replies",
                      {"role": role, "primary": "S1F1W", "system": hex(system), "replies": [x.describe() for x in replies]})


def _secsi_primaries(ctx, rounds):
    """The same duty behind the SECS-I block transfer: primaries with W-bit arrive over a scripted SECS-I line - as one block
    numbered 1, as one block numbered 0 (E4 allows both for a single-block message), or in several blocks - with and without a
    callback registered for them; each is answered by exactly one message carrying its system bytes."""
    import secsgem.common
    import secsgem.secs
    from checks.c06 import LinePeer
    from lib.secsirig import PipeSecsISettings

    rng = ctx.rng

    class _Rig:                    # what LinePeer needs of a rig
        pass
    for r in range(rounds):
        host = rng.random() < 0.5
        settings = PipeSecsISettings(port=f"VPIPE-C08-{ctx.shard}-{r}", device_type=secsgem.common.DeviceType.HOST if host else secsgem.common.DeviceType.EQUIPMENT)
        handler = secsgem.secs.SecsHandler(settings)
        handler.register_stream_function(1, 1, lambda h, m: h.stream_function(1, 2)())
        handler.enable()
        rig = _Rig()
        rig.pipe = settings.pipe
        peer = LinePeer(rig)
        rig.pipe.connect()
        sysgen = gen.system_bytes(rng, 0x00A00000 + rng.randrange(1 << 12) * 64, p=0.1)
        try:
            for k in range(rng.randint(4, 9)):
                system = next(sysgen)
                kind = rng.choice(["callback", "callback", "no-callback", "no-callback", "uncatalogued"])
                s_f = {"callback": (1, 1), "no-callback": rng.choice([(2, 17), (1, 3), (2, 25)]), "uncatalogued": (rng.choice([64, 99]), 1)}[kind]
                numbering = rng.choice(["one", "zero", "multi"])
                if s_f == (1, 1):
                    body = b""
                    numbering = rng.choice(["one", "zero"])
                elif numbering == "multi":
                    body = bytes([0x21, 0xFF]) + rng.randbytes(255) + bytes([0x21, 200]) * 0       # a B item of 255 bytes: two blocks
                else:
                    body = b"" if s_f != (2, 25) else bytes([0x21, 3, 1, 2, 3])
                chunks = [body[i:i + 244] for i in range(0, len(body), 244)] or [b""]
                raws = []
                for i, chunk in enumerate(chunks):
                    blockno = 0 if (numbering == "zero" and len(chunks) == 1) else i + 1
                    raws.append(wire.secs1_block(wire.secs1_header(0, not host, s_f[0], True, s_f[1], blockno, i == len(chunks) - 1, system), chunk))
                n0 = len(peer.complete)
                sent_ok = peer.send_blocks(raws, timeout=10.0)
                ctx.count("oracle.secsi_primaries")
                ctx.case(("secsi-primary", host, kind, numbering, len(chunks)), nontrivial=True)
                wit = {"transport": "SECS-I", "role": "host" if host else "equipment", "primary": f"S{s_f[0]}F{s_f[1]}W({system:#x})",
                       "handler_for_it": kind, "blocks": len(chunks), "single_block_numbered": numbering if len(chunks) == 1 else None}
                if not sent_ok:
                    ctx.violation("secsi:valid-primary-block-not-acknowledged", {**wit, "stray": peer.stray[:3]})
                    return

                def answers():
                    return [c for c in peer.complete[n0:] if c[0]["system"] == system]
                end = time.monotonic() + 4.0
                while time.monotonic() < end and not answers():
                    time.sleep(0.002)
                if not answers():
                    end = time.monotonic() + 2.0            # grace before "absent"
                    while time.monotonic() < end and not answers():
                        time.sleep(0.005)
                time.sleep(0.05)
                got = answers()
                if len(got) != 1:
                    ctx.violation(f"secsi:primary-not-answered-exactly-once:{len(got)}-answers", {
                        **wit, "answers": [f"S{c[0]['stream']}F{c[0]['function']}" for c in got],
                        "other_messages": [f"S{c[0]['stream']}F{c[0]['function']}({c[0]['system']:#x})" for c in peer.complete[n0:]][:4]})
                    return
                f0 = got[0][0]
                if f0["wbit"] or f0["stream"] not in (s_f[0], 9) or (kind == "callback" and (f0["stream"], f0["function"]) != (1, 2)):
                    ctx.violation("secsi:answer-is-not-a-secondary-of-the-primary", {**wit, "answer": f"S{f0['stream']}F{f0['function']}{'W' if f0['wbit'] else ''}"})
                    return
        finally:
            peer.stop = True
            th = threading.Thread(target=stuck.harness_thread(handler.disable), daemon=True, name="harness-disable")
            th.start()
            th.join(5.0)


def _burst(ctx, role, n):
    """Many primaries at once: `n` requests (S1F1 W and an uncatalogued S64F1 W mixed, distinct system bytes) arrive in one
    segment, faster than any callback can answer them. Each one is answered exactly once with its own system bytes."""
    from lib.gemrig import GemRig

    rng = ctx.rng
    rig = GemRig(role=role, active=rng.random() < 0.3, t3=5.0)
    if not rig.establish():
        ctx.unsure("precondition failed: the handler did not reach COMMUNICATING with a cooperative peer (C07/C20 judge that)")
        rig.shutdown()
        return
    base = 0x51000000 + rng.randrange(1 << 12) * 4096
    kinds, seg = [], bytearray()
    for i in range(n):
        unknown = rng.random() < 0.2
        kinds.append(unknown)
        rig.injected_systems.add(base + i)
        seg += wire.hsms_data(64 if unknown else 1, 1, True, base + i, b"")
    since = rig.n_frames()
    ctx.case(("burst", role, n), nontrivial=True)
    ctx.count("oracle.bursts_of_primaries_in_one_segment")
    ctx.maximum("largest_burst", n)
    rig.pipe.feed(bytes(seg))

    def answers():
        out = {}
        for _, f in rig.data_frames(since):
            if base <= f.system < base + n:
                out.setdefault(f.system, []).append((f.stream, f.function))
        return out
    ok = rig.wait(lambda: len(answers()) >= n, timeout=30.0, min_idle=1.0)
    if not ok:
        rig.confirm_absent(lambda: len(answers()) >= n, 3.0)
    got = answers()
    bad = []
    for i in range(n):
        a = got.get(base + i, [])
        want = [(9, 5)] if kinds[i] else [(1, 2)]
        if a != want:
            bad.append((i, a))
    if bad:
        ctx.violation(f"burst-of-primaries-not-answered-once-each:{'none-answered' if not got else 'some'}",
                      {"role": role, "burst": n, "answered": len(got), "first_differences": [(i, a) for i, a in bad[:5]], "state": rig.comm_state})
    rig.shutdown()


def run(ctx):
    from secsgem.secs.functions._all import secs_streams_functions

    vtime.install()
    _secsi_primaries(ctx, 3 if ctx.quick else 60)
    classes = {(c.stream, c.function): c for c in secs_streams_functions}
    cat = _items_catalogue()
    for i in range(2 if ctx.quick else 12):
        _burst(ctx, "equipment" if i % 2 == 0 else "host", ctx.rng.choice([130, 140, 200, 300, 520, 600]))
    n = 60 if ctx.quick else 1500
    for i in range(n):
        _sequence(ctx, "equipment" if i % 2 == 0 else "host", classes, cat, ctx.rng.randint(1, 30))
