"""C20 - a secsgem host and a secsgem equipment always reach communication and agree on data.

A real GemHostHandler and a real GemEquipmentHandler are joined by an in-memory link (seeded segmentation,
latency, connect order) in either HSMS role assignment and enable order. Virtual time: whenever the pair is
idle without both sides COMMUNICATING the harness lets the earliest pending establish-communications timer
expire, so convergence is measured in timer expiries. After convergence random sequences of host service calls
and equipment actions are compared with the equipment's tables; collection events carry a counter so each
trigger is identifiable; either side is disabled and re-enabled and everything is checked again.
"""

from __future__ import annotations

import itertools
import threading
import time

from lib import stuck, vtime

PROPERTY = "C20"
LEVEL = "exploration"
RULE = ("sessions over (host active / equipment passive and the reverse) x (enable order: host first, equipment first, "
        "simultaneous) x initial control state x link seeds (segmentation, latency, accept/connect order), each with a random "
        "sequence (<= 25, thorough <= 100) of host calls {request_svs, request_sv, list_svs, request_ecs, list_ecs, set_ec, "
        "list_alarms, list_enabled_alarms, enable/disable_alarm, go_online, go_offline, send_remote_command, are_you_there} "
        "(incl. clear_collection_events followed by a new subscription; 15% of the sessions with the first answers of the passive side "
        "later than the active side's T6) and equipment actions {trigger (ids as numbers and as CollectionEventId members, one or two per call), set/clear alarm, control switches, value updates} and 0-3 disable/enable cycles of "
        "either side; distinct by (configuration, link seed, call sequence); non-trivial when the API phase ran at least 5 calls; plus: re-subscription after clear_collection_events with another variable list under the same report id; sessions over the real TCP transport with disable / enable sequences of one or both sides (restart one, both down and up in either order, one side up-down-up alone); a network failure inside a message (one side receives only its first 1-30 bytes, then both see the connection end and the link comes back); an event report whose application-supplied value source fails once, followed by further events")
ASSUMPTIONS = ["'within a bounded time' is virtual time: at most 10 establish-communications timer expiries per convergence, "
               "with a 20 s wall-clock watchdog whose firing is inconclusive unless every thread is parked",
               "the in-memory link reproduces TCP connection semantics (see lib/pipe.py, lib/link.py)",
               "collection events triggered while the link is down or the event is not enabled are not expected at the host"]
LEVEL_TEXT = ("Runtime monitoring of two real handlers talking to each other over a scheduler-controlled link: bounded-progress "
              "oracle for convergence, differential oracle (host view vs equipment tables) for every service call, exactly-once "
              "oracle for collection events and alarm reports; configurations enumerated, schedules and call sequences sampled.")
LEVEL_NOTE = "Sampled schedules; liveness restated as bounded progress in virtual time."
TECHNIQUE = "runtime differential + exactly-once monitors on two real endpoints over a seeded in-memory link with virtual timers"
SHARDS = {"quick": 8, "thorough": 16}
TIMEOUT = {"quick": 500, "thorough": 3400}
FLOORS = {"sessions.reached_api_phase": 20, "sessions.with_restart_cycle": 5, "oracle.host_calls": 200, "oracle.events_exactly_once": 40,
          "convergence.checked": 30, "sessions.with_network_failure_inside_a_message": 5,
          "sessions.event_report_whose_value_source_failed": 5}

CODE = {"EQUIPMENT_OFFLINE": 1, "ATTEMPT_ONLINE": 2, "HOST_OFFLINE": 3, "ONLINE_LOCAL": 4, "ONLINE_REMOTE": 5}


class Session:
    def __init__(self, ctx, host_active, order, initial_control, link_seed):
        import secsgem.common
        import secsgem.gem
        import secsgem.hsms
        import secsgem.secs.variables as V
        from lib.link import Link
        from lib.pipe import PipeHsmsSettings
        from secsgem.gem import Alarm, CollectionEvent, DataValue, EquipmentConstant, StatusVariable

        self.ctx = ctx
        self.cfg = {"host_active": host_active, "enable_order": order, "initial_control_state": initial_control, "link_seed": link_seed}
        A, P = secsgem.hsms.HsmsConnectMode.ACTIVE, secsgem.hsms.HsmsConnectMode.PASSIVE
        port = 7000 + ctx.rng.randrange(50000)
        # "any message timing": in some sessions the passive side's first answers take longer than the active side's T6
        self.slow_select = ctx.rng.random() < 0.15
        common = dict(address="127.0.0.1", port=port, t3=10.0, t6=0.4 if self.slow_select else 3.0, establish_communication_timeout=10)
        self.hs = PipeHsmsSettings(connect_mode=A if host_active else P, device_type=secsgem.common.DeviceType.HOST, **common)
        self.es = PipeHsmsSettings(connect_mode=P if host_active else A, device_type=secsgem.common.DeviceType.EQUIPMENT, **common)
        self.host = secsgem.gem.GemHostHandler(self.hs)
        sess = self

        class Equipment(secsgem.gem.GemEquipmentHandler):
            """An equipment whose data value 32 comes from a source of its own (documented override) that can fail."""

            def on_dv_value_request(self, dvid, dv):
                if dv.dvid == 32:
                    if sess.sensor_fails:
                        sess.sensor_fails = False
                        sess.sensor_failures += 1
                        raise RuntimeError("sensor not ready")
                    return dv.value_type(3232)
                return super().on_dv_value_request(dvid, dv)

        self.sensor_fails = False
        self.sensor_failures = 0
        self.eq = Equipment(self.es, initial_control_state=initial_control)
        hp, ep = self.hs.create_connection(), self.es.create_connection()
        self.link = Link(hp if host_active else ep, ep if host_active else hp, seed=link_seed)
        if self.slow_select:
            self.link.slow_first_response = 0.9
            ctx.count("sessions.with_select_response_later_than_T6")
        self.cfg["select_response_later_than_T6"] = self.slow_select
        self.hp, self.ep = hp, ep
        # equipment tables
        self.sv = StatusVariable(10, "sv_ten", "mm", V.U4, use_callback=False)
        self.sv.value = 11
        self.eq.status_variables[10] = self.sv
        self.dv = DataValue(30, "counter", V.U4, use_callback=False)
        self.eq.data_values[30] = self.dv
        aux = DataValue(31, "aux", V.U2, use_callback=False)
        aux.value = 4711
        self.eq.data_values[31] = aux
        self.cur_dvs = [30]        # the variables the host currently subscribes to for event 50
        self.shape_errors = []
        self.eq.equipment_constants[20] = EquipmentConstant(20, "ec_i2", -100, 100, 5, "u", V.I2, use_callback=False)
        self.eq.alarms[100] = Alarm(100, "al100", "text one", 3, 5100, 6100)
        self.eq.alarms[101] = Alarm(101, "al101", "second", 65, 5101, 6101)
        self.eq.collection_events[50] = CollectionEvent(50, "ce50", [30])
        self.eq.data_values[32] = DataValue(32, "sensor", V.U2, use_callback=True)
        self.eq.collection_events[52] = CollectionEvent(52, "ce52", [32])
        self.counter = itertools.count(ctx.rng.randint(1, 100000))     # identifies each trigger; no special values favoured
        self.triggered = []       # counter values whose S6F11 must reach the host
        self.received = []        # counter values seen by the host
        self.alarm_events = []    # (alid, alcd) seen by the host
        self.expected_alarm_events = []
        self.subscribed = False
        self.subscribed52 = False
        self.second_report = False   # event 50 is linked to a second report (4003: the auxiliary value) as well
        self.received_second = []
        self.triggered_with_second = 0
        self.calls = 0
        self.hist = []
        self.bad = False
        self.lock = threading.Lock()
        self.host.events.collection_event_received += self._on_ce
        self.host.events.alarm_received += self._on_alarm

    # ------------------------------------------------------------------ spies
    def _on_ce(self, data):
        try:
            ceid = data["ceid"].get() if hasattr(data["ceid"], "get") else data["ceid"]
            vals = [v["value"] for v in data["values"]]
        except Exception:
            ceid, vals = None, []
        try:
            rptid = data["rptid"].get() if hasattr(data["rptid"], "get") else data["rptid"]
        except Exception:
            rptid = None
        with self.lock:
            if ceid == 50 and rptid == 4003:
                # the second report linked to event 50 (the auxiliary value): counted on its own
                self.received_second.append(vals[:1])
                return
            if ceid in (50, 21) and vals:
                self.received.append((ceid, vals[0]))
                if ceid == 50 and len(vals) != len(self.cur_dvs):
                    self.shape_errors.append({"values": vals[:4], "subscribed_variables": list(self.cur_dvs)})

    def _on_alarm(self, data):
        with self.lock:
            self.alarm_events.append((data["alid"].get(), data["code"].get()))

    def wit(self, **kw):
        # states first: logs may be truncated
        return {"host_comm": self.host.communication_state.current.name, "equipment_comm": self.eq.communication_state.current.name,
                "host_link": self.host.protocol.connection_state.current.name,
                "equipment_link": self.eq.protocol.connection_state.current.name,
                "pipes": {"host": [self.hp.enabled, self.hp.link_up], "equipment": [self.ep.enabled, self.ep.link_up],
                          "link_connected": self.link.connected, "link_queue": len(self.link.queue), "link_error": self.link.error,
                          "link_trace": [w for _, w in self.link.trace[-4:]]},
                "timers": [f"{getattr(t.function, '__qualname__', t.function)}" for t in vtime.pending()][:8],
                "handler_errors": {"host": self.hp.handler_errors[-3:], "equipment": self.ep.handler_errors[-3:]},
                "pipe_events": {"host": [k for _, k in self.hp.events[-8:]], "equipment": [k for _, k in self.ep.events[-8:]]},
                "last_frames": {"host": [repr(f)[:60] for f in self.hp.frames()[-4:]], "equipment": [repr(f)[:60] for f in self.ep.frames()[-4:]]},
                **kw, "config": self.cfg, "history": self.hist[-14:]}

    def violation(self, mech, **kw):
        self.ctx.violation(mech, self.wit(**kw))
        self.bad = True

    # ------------------------------------------------------------------ helpers
    def activity(self):
        return (self.hp.activity, self.ep.activity, self.link.bytes_forwarded, len(self.link.queue))

    def idle(self, timeout=0.3):
        """Nothing moves: inboxes and link queue empty, every secsgem thread parked, counters stable - and the link's own
        scheduler thread (a harness thread, invisible to the stack sampler) completed whole iterations meanwhile without
        finding anything to do, so 'nothing moves' cannot be the scheduler being starved or in the middle of an action."""
        link = self.link
        t0 = link.ticks
        state0 = (link.connected, link.connections, self.hp.link_up, self.ep.link_up)
        if not (self.hp.inbox_empty() and self.ep.inbox_empty() and not link.queue and
                stuck.wait_idle(self.activity, timeout=timeout, settle=0.006, samples=5)):
            return False
        end = time.monotonic() + 1.0
        while link.ticks < t0 + 3 and link.error is None and time.monotonic() < end:
            time.sleep(0.001)
        if link.error is not None or link.ticks < t0 + 3:
            return False
        # a pending transport-level step (one side up, the other not; both enabled but not connected) is not idleness
        hp, ep = self.hp, self.ep
        if hp.link_up != ep.link_up or (hp.enabled and ep.enabled and not hp.link_up):
            return False
        return state0 == (link.connected, link.connections, hp.link_up, ep.link_up) and hp.inbox_empty() and ep.inbox_empty() and not link.queue

    def both_communicating(self):
        return self.host.communication_state.current.name == "COMMUNICATING" and self.eq.communication_state.current.name == "COMMUNICATING"

    def converge(self, where):
        """Bounded progress in virtual time."""
        self.ctx.count("convergence.checked")
        deadline = time.monotonic() + 45
        fired = 0
        while time.monotonic() < deadline:
            if self.link.error is not None:
                self.ctx.unsure(f"harness fault: the link scheduler thread died: {self.link.error[-600:]}")
                self.bad = True
                return False
            if self.both_communicating():
                self.ctx.maximum("max_timer_expiries_until_communicating", fired)
                return True
            if self.idle(0.2):
                if self.both_communicating():
                    return True
                timers = [t for h in (self.host, self.eq) for t in vtime.pending(owner=h.communication_state)]
                if not timers:
                    # idle, not communicating, and no retry armed: nothing will ever change - unless a thread sits in a
                    # *timed* wait (T6 of a select, T3 of a request): then real time decides, up to the watchdog
                    if any(kind == "timed" for _, kind, _ in stuck.snapshot().values()):
                        self.ctx.count("convergence.waited_for_a_real_timeout")
                        if not getattr(self, "_noted_timed", False):
                            self._noted_timed = True
                            self.ctx.sample({"waited_for_real_timeout": {"where": where, "states": self.wit(),
                                             "stacks": {n: st for n, st in stuck.stacks(7).items() if any("wait" in f for f in st[-2:])}}}, cap=8)
                        time.sleep(0.05)
                        continue
                    if self.idle(0.3) and not self.both_communicating() and \
                            not any(kind == "timed" for _, kind, _ in stuck.snapshot().values()) and \
                            not [t for h in (self.host, self.eq) for t in vtime.pending(owner=h.communication_state)]:
                        self.violation(f"never-communicating:{where}:idle-with-no-retry-pending", stacks=stuck.stacks(6), timer_expiries=fired)
                        return False
                    continue
                if fired >= 10:
                    # the last attempt may still be on its way on a starved machine: wall-clock grace before the verdict
                    end = time.monotonic() + 4.0
                    while time.monotonic() < end and not self.both_communicating():
                        time.sleep(0.01)
                    if self.both_communicating():
                        self.ctx.count("convergence.reached_during_the_final_grace")
                        return True
                    self.violation(f"not-communicating-after-10-timer-expiries:{where}")
                    return False
                # virtual time only advances when nothing moved during two observations in a row (a thread that was just woken
                # looks parked until the OS runs it)
                if not self.idle(0.25) or self.both_communicating():
                    continue
                timers = [t for h in (self.host, self.eq) for t in vtime.pending(owner=h.communication_state)]
                if not timers:
                    continue
                th = vtime.fire(sorted(timers, key=lambda t: (t.due, t.seq))[0])
                fired += 1
                if th is not None:
                    th.join(3.0)
            time.sleep(0.002)
        if self.both_communicating():
            return True
        rx = [t for t in (getattr(self.hp, "_rx_thread", None), getattr(self.ep, "_rx_thread", None)) if t is not None and t.is_alive()]
        half_closed = self.hp.link_up != self.ep.link_up
        if half_closed and rx and stuck.blocked_forever(rx, watch=1.0, samples=6):
            # one side never finished the close sequence of a connection the other side has left
            self.violation(f"close-sequence-blocked-forever:{where}", stacks=stuck.stacks(6), link_trace=self.link.trace[-6:])
            return False
        self.ctx.unsure(f"watchdog: not communicating after 45 s ({where}) but the pair never became idle: {self.wit(link_trace=self.link.trace[-8:])}")
        self.bad = True
        return False

    def call(self, name, fn, timeout=12.0):
        """Run a (blocking) API call in a harness thread."""
        box = {}
        done = threading.Event()

        @stuck.harness_thread
        def run():
            try:
                box["r"] = fn()
            except Exception as exc:
                box["exc"] = exc
            done.set()
        th = threading.Thread(target=run, daemon=True, name=f"harness-call-{name}")
        th.start()
        if not done.wait(timeout):
            # disable() polls for the end of the connection's receiver thread (the harness connection mirrors the library's
            # busy-wait): the call is blocked forever if that thread and everybody else are parked in untimed waits for good
            rx = [t for t in (getattr(self.hp, "_rx_thread", None), getattr(self.ep, "_rx_thread", None)) if t is not None and t.is_alive()]
            if stuck.blocked_forever([th], watch=0.6) or (rx and stuck.blocked_forever(rx, watch=1.0, samples=6)):
                self.violation(f"call-blocked-forever:{name}", stacks=stuck.stacks(6))
            else:
                import sys
                import traceback
                fr = sys._current_frames().get(th.ident)
                own = [f"{f.filename.split('/')[-1]}:{f.lineno} {f.name}" for f in traceback.extract_stack(fr)[-8:]] if fr else []
                busy = {n: st[-4:] for n, st in stuck.stacks(6).items() if "dispatcher" not in n or "wait" not in st[-1]}
                self.ctx.unsure(f"call {name} did not return within {timeout}s; its stack: {own}; other threads: {busy}; {self.wit()}"[:3000])
                self.bad = True
            return None, "timeout"
        if "exc" in box:
            return None, box["exc"]
        return box["r"], None

    def enable(self, order):
        if order == "host_first":
            self.host.enable()
            time.sleep(self.ctx.rng.choice([0, 0.005]))
            self.eq.enable()
        elif order == "equipment_first":
            self.eq.enable()
            time.sleep(self.ctx.rng.choice([0, 0.005]))
            self.host.enable()
        else:
            ts = [threading.Thread(target=stuck.harness_thread(h.enable), daemon=True) for h in (self.host, self.eq)]
            for t in ts:
                t.start()
            for t in ts:
                t.join(5)

    # ------------------------------------------------------------------ API phase
    def host_call(self, name, fn, expect, compare=None):
        self.hist.append(name)
        res, err = self.call(name, fn)
        if self.bad:
            return
        self.calls += 1
        self.ctx.count("oracle.host_calls")
        if err is not None:
            self.violation(f"host-call-fails:{name.split('(')[0]}:{type(err).__name__ if not isinstance(err, str) else err}", error=repr(err)[:300])
            return
        got = res.get() if hasattr(res, "get") and not isinstance(res, dict) else res
        ok = compare(got) if compare else got == expect
        if not ok:
            self.violation(f"host-view-differs-from-equipment:{name.split('(')[0]}", got=repr(got)[:300], expected=repr(expect)[:300])

    def api_step(self):
        rng = self.ctx.rng
        eq, host = self.eq, self.host
        cs = eq.control_state.current.name
        r = rng.random()
        if r < 0.10:
            self.host_call("request_svs([10,1002])", lambda: host.request_svs([10, 1002]), [self.sv.value, CODE.get(cs)])
        elif r < 0.16:
            self.host_call("request_sv(10)", lambda: host.request_sv(10), self.sv.value, compare=lambda g: (g.get() if hasattr(g, "get") else g) == self.sv.value)
        elif r < 0.22:
            self.host_call("list_svs([10])", lambda: host.list_svs([10]), [{"SVID": 10, "SVNAME": "sv_ten", "UNITS": "mm"}])
        elif r < 0.30:
            v = eq.equipment_constants[20].value
            self.host_call("request_ecs([20])", lambda: host.request_ecs([20]), [v], compare=lambda g: g == [v] or g == v)
        elif r < 0.36:
            self.host_call("list_ecs([20])", lambda: host.list_ecs([20]),
                           [{"ECID": 20, "ECNAME": "ec_i2", "ECMIN": -100, "ECMAX": 100, "ECDEF": 5, "UNITS": "u"}])
        elif r < 0.46:
            newv = rng.choice([-100, 100, 0, 17, 101, -101, 55])
            valid = -100 <= newv <= 100
            before = eq.equipment_constants[20].value
            self.host_call(f"set_ec(20,{newv})", lambda: host.set_ec(20, newv), 0 if valid else 3,
                           compare=lambda g: (g == 0) == valid)
            if not self.bad:
                after = eq.equipment_constants[20].value
                if after != (newv if valid else before):
                    self.violation("set_ec-effect-differs", value=after, sent=newv, before=before)
        elif r < 0.54:
            al = eq.alarms
            self.host_call("list_alarms([100,101])", lambda: host.list_alarms([100, 101]),
                           [{"ALCD": al[a].code | (128 if al[a].set else 0), "ALID": a, "ALTX": al[a].text} for a in (100, 101)])
        elif r < 0.60:
            al = eq.alarms
            self.host_call("list_enabled_alarms()", lambda: host.list_enabled_alarms(),
                           [{"ALCD": al[a].code | (128 if al[a].set else 0), "ALID": a, "ALTX": al[a].text} for a in (100, 101) if al[a].enabled])
        elif r < 0.68:
            a = rng.choice([100, 101])
            en = rng.random() < 0.7
            self.host_call(f"{'enable' if en else 'disable'}_alarm({a})", lambda: (host.enable_alarm if en else host.disable_alarm)(a), 0)
            if not self.bad and eq.alarms[a].enabled != en:
                self.violation("alarm-enable-state-not-applied", alid=a, want=en)
        elif r < 0.74:
            want = 0 if cs == "HOST_OFFLINE" else 2 if cs.startswith("ONLINE") else 1
            self.host_call("go_online()", lambda: host.go_online(), want)
        elif r < 0.79:
            self.host_call("go_offline()", lambda: host.go_offline(), 0)
        elif r < 0.82:
            self.host_call("send_remote_command(START)", lambda: host.send_remote_command("START", []), {"HCACK": 4, "PARAMS": []})
        elif r < 0.85:
            self.host_call("are_you_there()", lambda: host.are_you_there(), None, compare=lambda g: g is not None)
        elif r < 0.885 and self.subscribed:
            # the host removes all reports and links, then subscribes again: the events must flow as before
            self.hist.append("clear_collection_events() + subscribe again")
            _, err = self.call("clear_collection_events", lambda: host.clear_collection_events())
            if err is not None and not self.bad:
                self.violation("clear_collection_events-fails", error=repr(err)[:200])
                return
            self.ctx.count("oracle.clear_and_subscribe_again")
            if not self.bad and (eq.registered_reports or eq.registered_collection_events):
                self.violation("host-view-differs-from-equipment:clear_collection_events",
                               reports_left=sorted(map(str, eq.registered_reports)), links_left=sorted(map(str, eq.registered_collection_events)))
                return
            self.subscribed = False
            self.subscribed52 = False
            if not self.bad:
                # the same report id with another list of variables
                self.cur_dvs = [30, 31] if self.cur_dvs == [30] else [30]
                self.subscribe()
                if not self.bad and self.subscribed:
                    n = next(self.counter)
                    self.dv.value = n
                    self.hist.append(f"trigger([50]) counter={n}")
                    eq.trigger_collection_events([50])
                    self.triggered.append((50, n))
                    self.triggered_with_second += self.second_report
                    self.wait_events()
        elif r < 0.94 and self.subscribed:
            from secsgem.gem import CollectionEventId

            n = next(self.counter)
            self.dv.value = n
            # the id forms the API accepts: plain numbers and members of the library's CollectionEventId enumeration
            # ... and lists in which an id nobody subscribed to (a defined event without link, an unknown number) stands next to
            # subscribed ones: the unsubscribed one is not reported, the others are
            form = rng.choice(["[50]", "[50]", "[enum 21, 50]", "[50, enum 21]", "[21]", "[enum 21]", "[enum 20, 50]", "[7777, 50, 21]", "[50, 7777]"])
            ids = {"[50]": [50], "[enum 21, 50]": [CollectionEventId.CMD_STOP_DONE, 50], "[50, enum 21]": [50, CollectionEventId.CMD_STOP_DONE],
                   "[21]": [21], "[enum 21]": [CollectionEventId.CMD_STOP_DONE], "[enum 20, 50]": [CollectionEventId.CMD_START_DONE, 50],
                   "[7777, 50, 21]": [7777, 50, 21], "[50, 7777]": [50, 7777]}[form]
            self.hist.append(f"trigger({form}) counter={n}")
            plain = [i.value if isinstance(i, CollectionEventId) else i for i in ids]
            linked = [c for c in plain if c in eq.registered_collection_events and eq.registered_collection_events[c].enabled]
            eq.trigger_collection_events(ids)
            if "enum" in form:
                self.ctx.count("oracle.events_triggered_by_enum_id")
            if len(linked) < len(plain) and linked:
                self.ctx.count("oracle.events_triggered_next_to_unsubscribed_ids")
            for c in linked:
                self.triggered.append((c, n))
                self.triggered_with_second += (c == 50 and self.second_report)
            if linked:
                self.wait_events()
        elif r < 0.97:
            a = rng.choice([100, 101])
            to_set = not eq.alarms[a].set
            self.hist.append(f"{'set' if to_set else 'clear'}_alarm({a})")
            enabled = eq.alarms[a].enabled
            _, err = self.call("alarm", lambda: (eq.set_alarm if to_set else eq.clear_alarm)(a))
            if err is not None and not self.bad:
                self.violation("set-or-clear-alarm-fails", error=repr(err)[:200])
            if enabled and not self.bad:
                self.expected_alarm_events.append((a, eq.alarms[a].code | (128 if to_set else 0)))
        else:
            self.sv.value = rng.randint(0, 2**32 - 1)
            self.hist.append(f"sv10={self.sv.value}")
            op = rng.choice(["switch_online", "switch_offline", "switch_online_local", "switch_online_remote"])
            self.call(op, getattr(eq, "control_" + op))   # may raise for an illegal switch: not judged here (C11)

    def subscribe(self):
        self.hist.append("subscribe_collection_event(50,[30])")
        dvs = list(self.cur_dvs)
        self.hist[-1] = f"subscribe_collection_event(50,{dvs})"
        _, err = self.call("subscribe", lambda: self.host.subscribe_collection_event(50, dvs, report_id=4000))
        if err is not None and not self.bad:
            self.violation("subscribe_collection_event-fails", error=repr(err)[:200])
            return
        self.subscribed = True
        self.second_report = False
        link = self.eq.registered_collection_events.get(50)
        if link is None or not link.enabled or list(link.reports) != [4000]:
            self.violation("subscription-not-registered-at-equipment")
            return
        if self.ctx.rng.random() < 0.4:
            # a second subscription for the same event: its reports are both sent, in link order, and each reaches the listeners
            self.hist.append("subscribe_collection_event(50,[31]) as a second report")
            _, err = self.call("subscribe", lambda: self.host.subscribe_collection_event(50, [31], report_id=4003))
            if err is not None and not self.bad:
                self.violation("subscribe_collection_event-fails", error=repr(err)[:200], second_report=True)
                return
            link = self.eq.registered_collection_events.get(50)
            if link is None or not link.enabled or list(link.reports) != [4000, 4003]:
                self.violation("subscription-not-registered-at-equipment", second_report=True)
                return
            self.second_report = True
            self.ctx.count("sessions.event_with_two_reports")
        # one of the library's own collection events (CMD_STOP_DONE = 21), to be triggered through its enumeration member
        _, err = self.call("subscribe", lambda: self.host.subscribe_collection_event(21, [30], report_id=4001))
        if err is not None and not self.bad:
            self.violation("subscribe_collection_event-fails", error=repr(err)[:200], ceid=21)

    def failing_value_source(self):
        """The application's own value source fails for one event report (event 52); whatever becomes of that report, the
        events triggered afterwards must still reach the host."""
        if not self.subscribed52:
            _, err = self.call("subscribe", lambda: self.host.subscribe_collection_event(52, [32], report_id=4002))
            if err is not None or self.bad:
                return
            self.subscribed52 = True
        self.hist.append("trigger(52) while its value source fails")
        self.sensor_fails = True
        n0 = self.sensor_failures
        self.eq.trigger_collection_events([52])
        end = time.monotonic() + 5
        while time.monotonic() < end and self.sensor_failures == n0:
            time.sleep(0.002)
        self.sensor_fails = False
        self.ctx.count("sessions.event_report_whose_value_source_failed")

    def network_failure(self):
        """The network fails inside a message: one side receives only the first bytes of it, then both see the connection end.
        The link comes back at once; both handlers must find each other again and agree on the data."""
        rng = self.ctx.rng
        towards = rng.choice(["host", "equipment"])
        k = rng.choice([1, 3, 4, 5, 9, 13, rng.randint(1, 13), rng.randint(14, 30)])
        self.hist.append(f"network failure after {k} bytes of a message towards the {towards}")
        n0 = self.link.failures
        conn0 = self.link.connections
        self.link.break_after = (self.hp if towards == "host" else self.ep, k)
        try:
            # S1F1 from the host: the request travels towards the equipment, its answer towards the host
            self.host.send_stream_function(self.host.stream_function(1, 1)())
        except Exception:
            pass
        end = time.monotonic() + 5
        while time.monotonic() < end and self.link.failures == n0:
            time.sleep(0.002)
        if self.link.failures == n0:
            self.link.break_after = None
            self.ctx.count("network_failure.no_traffic_in_that_direction")
            return
        end = time.monotonic() + 10
        while time.monotonic() < end and self.link.connections == conn0:
            time.sleep(0.002)
        self.ctx.count("sessions.with_network_failure_inside_a_message")
        self.converge("after-network-failure-inside-a-message")

    def wait_events(self):
        # (returns as soon as the reports are there. The report of an event is built by a thread of its own, it reads the
        #  variables when it runs: the harness must not set the next counter value before that, however loaded the machine is)
        want = len(self.triggered)
        end = time.monotonic() + 20
        while time.monotonic() < end and len(self.received) < want:
            time.sleep(0.002)

    def check_events(self, where):
        self.wait_events()
        time.sleep(0.01)
        with self.lock:
            got = list(self.received)
            alarms = list(self.alarm_events)
        self.ctx.count("oracle.events_exactly_once", len(self.triggered))
        if self.shape_errors:
            self.violation(f"collection-event-report-does-not-carry-the-subscribed-variables:{where}", examples=self.shape_errors[:3])
            return
        if sorted(got) != sorted(self.triggered):
            missing = [list(n) for n in self.triggered if n not in got]
            dup = [list(n) for n in sorted({n for n in got if got.count(n) > 1})]
            self.violation(f"collection-events-not-exactly-once:{'lost' if missing else 'duplicated' if dup else 'unexpected'}:{where}",
                           triggered=self.triggered[-10:], received=got[-10:], missing=missing[:5], duplicated=dup[:5])
            return
        with self.lock:
            second = list(self.received_second)
        if len(second) != self.triggered_with_second:
            end = time.monotonic() + 3
            while time.monotonic() < end and len(self.received_second) < self.triggered_with_second:
                time.sleep(0.005)
            with self.lock:
                second = list(self.received_second)
        if len(second) != self.triggered_with_second or any(v != [4711] for v in second):
            self.violation(f"second-report-of-an-event-not-handed-to-the-host-once-per-trigger:{where}",
                           triggers_with_two_reports=self.triggered_with_second, second_reports_received=second[-6:])
            return
        if sorted(alarms) != sorted(self.expected_alarm_events):
            self.violation(f"alarm-reports-not-exactly-once:{where}", expected=self.expected_alarm_events[-8:], received=alarms[-8:])

    def restart(self, who):
        self.hist.append(f"disable+enable({who})")
        h = self.host if who == "host" else self.eq
        other = self.eq if who == "host" else self.host
        _, err = self.call(f"disable-{who}", h.disable, timeout=10)
        if self.bad:
            return
        if err is not None:
            self.violation(f"disable-fails:{who}", error=repr(err)[:200])
            return
        # the other side must notice the loss of the link
        end = time.monotonic() + 5
        while time.monotonic() < end and other.communication_state.current.name == "COMMUNICATING":
            time.sleep(0.002)
        if other.communication_state.current.name == "COMMUNICATING":
            self.violation(f"peer-still-COMMUNICATING-after-{who}-was-disabled")
            return
        # ... and tell its application so: both handlers' own query says "not communicating" while the link is down
        for name, hd in (("host", self.host), ("equipment", self.eq)):
            self.ctx.count("oracle.waitfor_communicating_while_link_down")
            try:
                answer = hd.waitfor_communicating(0.05)
            except Exception as exc:
                self.violation(f"waitfor_communicating-raises:{type(exc).__name__}", error=repr(exc)[:200])
                return
            if answer and hd.communication_state.current.name != "COMMUNICATING":
                time.sleep(0.3)
                if hd.waitfor_communicating(0.05) and hd.communication_state.current.name != "COMMUNICATING":
                    self.violation(f"waitfor_communicating-true-while-not-communicating:{name}:after-{who}-was-disabled",
                                   state=hd.communication_state.current.name)
                    return
        # virtual time passes while the link is down: the other side's establish-communications timers may expire
        for _ in range(self.ctx.rng.choice([0, 1, 2, 3])):
            timers = vtime.pending(owner=other.communication_state)
            if not timers:
                break
            th = vtime.fire(timers[0])
            if th is not None:
                th.join(2.0)
                if th.is_alive():
                    if stuck.blocked_forever([th], watch=0.5):
                        self.violation("timer-expiry-while-link-down-blocks-forever", stacks=stuck.stacks(6))
                        return
        _, err = self.call(f"enable-{who}", h.enable, timeout=10)
        if err is not None and not self.bad:
            self.violation(f"enable-fails:{who}", error=repr(err)[:200])
            return
        self.ctx.count("sessions.with_restart_cycle")
        self.converge(f"after-restart-of-{who}")

    def flap(self):
        """The link is lost while communication is still being established; time passes; the link comes back."""
        end = time.monotonic() + 1.0
        while time.monotonic() < end and not any(h.communication_state.current.name in ("WAIT_CRA", "WAIT_DELAY") for h in (self.host, self.eq)):
            time.sleep(0.0005)
        who = self.ctx.rng.choice(["host", "equipment"])
        h = self.host if who == "host" else self.eq
        other = self.eq if who == "host" else self.host
        self.hist.append(f"flap: disable({who}) during establishment, timers expire, enable")
        _, err = self.call(f"disable-{who}", h.disable, timeout=10)
        if self.bad:
            return
        self.ctx.count("sessions.with_link_flap_during_establishment")
        for _ in range(self.ctx.rng.choice([1, 2, 3, 4])):
            timers = vtime.pending(owner=other.communication_state)
            if not timers:
                break
            th = vtime.fire(timers[0])
            if th is not None:
                th.join(2.0)
                if th.is_alive() and stuck.blocked_forever([th], watch=0.5):
                    self.violation("timer-expiry-while-link-down-blocks-forever", stacks=stuck.stacks(6))
                    return
        _, err = self.call(f"enable-{who}", h.enable, timeout=10)
        if err is not None and not self.bad:
            self.violation(f"enable-fails:{who}", error=repr(err)[:200])

    def shutdown(self):
        for h in (self.host, self.eq):
            self.call("final-disable", h.disable, timeout=5)
        self.link.close()
        for h in (self.host, self.eq):
            for t in vtime.pending(owner=h.communication_state) + vtime.pending(owner=h.protocol):
                t.cancel()


def _session(ctx, cfg, idx, inj=None):
    rng = ctx.rng
    s = Session(ctx, *cfg, link_seed=rng.getrandbits(32))
    injecting = inj is not None and idx % 3 == 0
    if injecting:
        inj.begin(s.cfg["link_seed"], p=rng.choice([0.02, 0.06]))
    try:
        s.enable(cfg[1])
        if rng.random() < 0.3:
            s.flap()
            if s.bad:
                return
        if not s.converge("startup"):
            return
        ncalls = rng.randint(5, 25 if ctx.quick else 100)
        cycles = rng.choice([0, 1, 1, 2, 3])
        cycle_at = sorted(rng.sample(range(ncalls), min(cycles, ncalls)))
        s.subscribe()
        for i in range(ncalls):
            if s.bad:
                break
            if rng.random() < 0.04:
                s.check_events("before-network-failure")
                if s.bad:
                    break
                s.network_failure()
                continue
            if rng.random() < 0.05:
                s.failing_value_source()
                continue
            if i in cycle_at:
                s.check_events("before-restart")
                if s.bad:
                    break
                s.restart(rng.choice(["host", "equipment"]))
                continue
            s.api_step()
        if not s.bad:
            s.check_events("end")
        if s.calls >= 1:
            ctx.count("sessions.reached_api_phase")
        ctx.case(("session", cfg, s.cfg["link_seed"], tuple(h.split("(")[0] for h in s.hist)), nontrivial=s.calls >= 5)
        ctx.count("link.segments", s.link.segments)
        ctx.count("link.connections", s.link.connections)
        if idx < 2:
            ctx.sample({"config": s.cfg, "history": s.hist[:12]})
    finally:
        if injecting:
            sig, yields, _ = inj.end()
            ctx.count("yields_injected", yields)
            ctx.count("sessions.under_yield_injection")
        s.shutdown()


def _tcp_session(ctx, idx):
    """The same pair over the library's own TCP transport on the loopback interface: enable orders and disable / enable
    sequences of one or both sides (also of a side that has no connection at that moment); after each of them the two must reach
    COMMUNICATING again and a status request must work."""
    import secsgem.common
    import secsgem.gem
    import secsgem.hsms
    from lib import ports

    rng = ctx.rng
    host_active = rng.random() < 0.5
    A, P = secsgem.hsms.HsmsConnectMode.ACTIVE, secsgem.hsms.HsmsConnectMode.PASSIVE
    port = ports.free_port(ctx.shard, ctx.nshards)
    common = dict(address="127.0.0.1", port=port, t3=10.0, t5=1, t6=2.0, establish_communication_timeout=10)
    host = secsgem.gem.GemHostHandler(secsgem.hsms.HsmsSettings(connect_mode=A if host_active else P, device_type=secsgem.common.DeviceType.HOST, **common))
    eq = secsgem.gem.GemEquipmentHandler(secsgem.hsms.HsmsSettings(connect_mode=P if host_active else A, device_type=secsgem.common.DeviceType.EQUIPMENT, **common))
    for h in (host, eq):
        h.protocol._connection.select_timeout = 0.05  # noqa: SLF001 - polling interval of the transport threads, keeps the run short
    sides = {"host": host, "equipment": eq}
    hist = []
    cfg = {"transport": "tcp", "host_active": host_active}

    def call(name, fn, timeout=15.0):
        done = threading.Event()
        box = {}

        @stuck.harness_thread
        def run():
            try:
                fn()
            except Exception as exc:
                box["exc"] = repr(exc)
            done.set()
        th = threading.Thread(target=run, daemon=True, name=f"harness-call-{name}")
        th.start()
        if not done.wait(timeout):
            if stuck.blocked_forever([th], watch=0.6):
                ctx.violation(f"tcp:call-blocked-forever:{name.split('(')[0]}", {"config": cfg, "history": hist[-10:], "stacks": stuck.stacks(6)})
            else:
                ctx.unsure(f"tcp session: {name} did not return within {timeout}s: {hist[-6:]}")
            return False
        if "exc" in box:
            ctx.violation(f"tcp:call-raises:{name.split('(')[0]}", {"config": cfg, "history": hist[-10:], "error": box["exc"]})
            return False
        return True

    def both():
        return all(h.communication_state.current.name == "COMMUNICATING" for h in (host, eq))

    def converge(where):
        ctx.count("tcp.convergence_checked")
        end = time.monotonic() + 30
        fired = 0
        while time.monotonic() < end:
            if both():
                return True
            time.sleep(0.25)
            # virtual time: let a pending establish-communications time-out expire now and then
            timers = [t for h in (host, eq) for t in vtime.pending(owner=h.communication_state)]
            if timers and fired < 40:
                th = vtime.fire(sorted(timers, key=lambda t: (t.due, t.seq))[0])
                fired += 1
                if th is not None:
                    th.join(3.0)
        if both():
            return True
        ctx.violation(f"tcp:never-communicating:{where}", {"config": cfg, "history": hist[-10:], "host": host.communication_state.current.name,
                                                          "equipment": eq.communication_state.current.name,
                                                          "host_link": host.protocol.connection_state.current.name,
                                                          "equipment_link": eq.protocol.connection_state.current.name, "timer_expiries": fired})
        return False

    try:
        first, second = rng.sample(["host", "equipment"], 2)
        hist.append(f"enable({first}), enable({second})")
        if not call(f"enable({first})", sides[first].enable) or not call(f"enable({second})", sides[second].enable):
            return
        if not converge("startup"):
            return
        for _ in range(rng.randint(1, 3)):
            kind = rng.choice(["restart_one", "both_down_second_up_first", "both_down_first_up_first", "alone_cycle"])
            a, b = rng.sample(["host", "equipment"], 2)
            if kind == "restart_one":
                steps = [("disable", a), ("enable", a)]
            elif kind == "both_down_second_up_first":
                steps = [("disable", a), ("disable", b), ("enable", b), ("enable", a)]
            elif kind == "both_down_first_up_first":
                steps = [("disable", a), ("disable", b), ("enable", a), ("enable", b)]
            else:   # one side alone: up, down, up again while the other is down; then the other comes
                steps = [("disable", a), ("disable", b), ("enable", a), ("disable", a), ("enable", a), ("enable", b)]
            ctx.count(f"tcp.sequence.{kind}")
            for op, who in steps:
                hist.append(f"{op}({who})")
                if not call(f"{op}({who})", getattr(sides[who], op)):
                    return
                time.sleep(rng.choice([0.0, 0.0, 0.0, 0.05, 0.3]))     # mostly back to back: the other side is still closing
            if not converge(f"after-{kind}"):
                return
            box = {}
            if call("request_sv(1002)", lambda: box.setdefault("r", host.request_sv(1002))):
                ctx.count("tcp.host_calls")
        ctx.case(("tcp-session", host_active, tuple(hist)), nontrivial=True)
    finally:
        for h in (host, eq):
            call("final-disable", h.disable, timeout=8.0)
            for t in vtime.pending(owner=h.communication_state) + vtime.pending(owner=h.protocol):
                t.cancel()


def run(ctx):
    vtime.install()
    configs = [(ha, order, ini) for ha in (True, False) for order in ("host_first", "equipment_first", "simultaneous")
               for ini in ("ATTEMPT_ONLINE", "ONLINE", "HOST_OFFLINE", "EQUIPMENT_OFFLINE")]
    reps = 6 if ctx.quick else 150
    idx = 0
    from lib import sched
    inj = sched.YieldInjector(["/secsgem/"])     # the whole package
    inj.install()
    try:
        for rep in range(reps):
            for cfg in configs:
                idx += 1
                if ctx.mine(idx):
                    _session(ctx, cfg, idx, inj)
    finally:
        inj.uninstall()
    ctx.exhaustive["role_x_enable_order_x_initial_control_state"] = True
    for i in range(3 if ctx.quick else 40):
        _tcp_session(ctx, i)
