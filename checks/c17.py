"""C17 - SECS-I line protocol delivers accepted messages intact, once; NAKs bad blocks.

Two real SecsIProtocol endpoints (HOST and EQUIPMENT) are joined by a simulated serial line that records every
byte with direction and logical clock, re-chunks block bytes and can flip one byte in flight. A trace checker
verifies ENQ / EOT / block / ACK|NAK ordering per block; a history checker relates send results to deliveries.
"""

from __future__ import annotations

import itertools
import threading
import time

from lib import stuck, wire

PROPERTY = "C17"
LEVEL = "exploration"
RULE = ("messages of 0..3 blocks (thorough: up to 40) sent in alternating directions between two real SecsIProtocol "
        "endpoints over a simulated line with chunkings (whole, every byte, random cuts); one header/data/checksum byte "
        "flipped in flight at every position of a single-block and a two-block message (enumerated) and at random "
        "positions otherwise; distinct by (direction, size, chunking, corruption position); all non-trivial; plus: 3-5 block messages over a slow line (pauses of 0.45-0.8 T4 between blocks, more than T4 in total); 2-3 threads of one endpoint sending 1-4 block messages at the same time, their blocks alternating on the line (one side transmitting, every block with its handshake); the very message of a transfer that failed at its second or a later block sent again (same system bytes); header-only functions through send_response(function, system) with system bytes 0, 1, 0x7FFFFFFF, 0x80000000, 0xFFFFFFFF and random ones, and through send_stream_function")
ASSUMPTIONS = ["only one side transmits at a time (the harness serialises transfers, as the statement assumes)",
               "retries, T1/T2/T4 time-outs and ENQ contention are outside the statement",
               "a corrupted length byte may leave both ends waiting; there only 'success' and 'delivery' are forbidden"]
LEVEL_TEXT = ("Runtime trace checking of the real handshake on a recorded line trace plus a delivery/return-value history "
              "check, with in-flight fault injection; corruption positions of two fixed messages enumerated, the rest sampled.")
LEVEL_NOTE = "Thread interleavings are those the OS scheduler produces plus chunk-boundary variation; not enumerated."
TECHNIQUE = "runtime trace checker over a recorded line trace + in-flight byte-flip fault injection"
SHARDS = {"quick": 8, "thorough": 16}
TIMEOUT = {"quick": 300, "thorough": 3000}
FLOORS = {"transfer.clean.host_to_equipment": 50, "transfer.clean.equipment_to_host": 50, "transfer.corrupted": 20,
          "oracle.trace_blocks": 200, "enumerated.corruption_positions": 100,
          "transfer.concurrent_senders_blocks_alternated": 8, "transfer.same_message_again_after_a_NAK": 20, "oracle.api_send_response": 80}


class Line:
    """Joins two SecsIRig pipes; records the trace; applies chunking / corruption to block bytes."""

    def __init__(self, a, b):
        self.ends = {"H": a, "E": b}
        self.trace = []          # (clock, dir, bytes)
        self.lock = threading.Lock()
        self.clock = itertools.count(1)
        self.chunker = None      # callable(len) -> segment lengths
        self.corrupt = None      # (block_index, offset, mask) for the next transfer's block bytes
        self.block_counter = 0
        self.block_pause = 0.0   # seconds the line takes before it delivers the second and every later block of a transfer
        a.pipe.on_send = lambda data, gen: self._forward("H", "E", data)
        b.pipe.on_send = lambda data, gen: self._forward("E", "H", data)

    def _forward(self, src, dst, data):
        data = bytes(data)
        if len(data) > 1:  # block bytes (handshake characters are single bytes)
            with self.lock:
                idx = self.block_counter
                self.block_counter += 1
                cor = self.corrupt
            if self.block_pause and idx > 0:
                time.sleep(self.block_pause)
            if cor is not None and cor[0] == idx:
                bad = bytearray(data)
                bad[cor[1]] ^= cor[2]
                data = bytes(bad)
        with self.lock:
            self.trace.append((next(self.clock), src, data))
        segs = self.chunker(len(data)) if (self.chunker and len(data) > 1) else [len(data)]
        pos = 0
        for n in segs:
            self.ends[dst].pipe.feed(data[pos:pos + n])
            pos += n

    def reset(self):
        with self.lock:
            self.trace = []
            self.block_counter = 0
            self.corrupt = None


def check_trace(trace):
    """Per block: ENQ(s) EOT(r) block(s) ACK|NAK(r), block bytes only after EOT. Returns (blocks, error)."""
    blocks = []
    i = 0
    n = len(trace)
    while i < n:
        _, d, data = trace[i]
        if data != bytes([wire.ENQ]):
            return blocks, f"expected ENQ at trace index {i}, got {d}:{data[:4].hex()}"
        sender = d
        if i + 1 >= n:
            return blocks, "ENQ never answered"
        _, d2, data2 = trace[i + 1]
        if d2 == sender or data2 != bytes([wire.EOT]):
            return blocks, f"expected EOT from the other side at index {i + 1}, got {d2}:{data2[:4].hex()}"
        if i + 2 >= n:
            return blocks, "no block after EOT"
        _, d3, blk = trace[i + 2]
        if d3 != sender or len(blk) < 13 or blk[0] != len(blk) - 3:
            return blocks, f"expected one complete block from {sender} at index {i + 2}, got {d3}:{blk[:6].hex()}({len(blk)})"
        if i + 3 >= n:
            return blocks, "block never acknowledged"
        _, d4, ack = trace[i + 3]
        if d4 == sender or ack not in (bytes([wire.ACK]), bytes([wire.NAK])):
            return blocks, f"expected ACK/NAK from the receiver at index {i + 3}, got {d4}:{ack[:4].hex()}"
        blocks.append((sender, blk, ack[0]))
        i += 4
    return blocks, None


def _transfer(ctx, line, src, body_len, sf, wbit, corrupt=None, via="send_message", reuse=None):
    """One message from `src` ('H' or 'E'); returns nothing, records violations."""
    import secsgem.secsi.header as SH
    import secsgem.secsi.message as SM

    rng = ctx.rng
    dst = "E" if src == "H" else "H"
    sender, receiver = line.ends[src], line.ends[dst]
    body = rng.randbytes(body_len)
    system = sender.protocol.get_next_system_counter()
    done_before = getattr(line, "completed_systems", {}).get(src, [])
    if done_before and corrupt is None and rng.random() < 0.15:
        # a later transaction may carry system bytes the receiver has seen before (16-bit counters, the two ends counting
        # independently): it is a new message
        system = rng.choice(done_before)
        ctx.count("transfer.system_bytes_reused_after_a_completed_message")
    header = SH.SecsIHeader(system, rng.randint(0, 0x7FFF), sf[0], sf[1], 0, src == "E", wbit)
    msg = SM.SecsIMessage(header, body)
    if reuse is not None:
        # the very message of an earlier, failed transfer is sent again (same system bytes)
        header, body, msg = reuse
        system = header.system
    line.last_message = (header, body, msg)
    nblocks = len(msg.blocks)
    line.reset()
    line.corrupt = corrupt
    before = len(receiver.delivered)
    result = {}
    done = threading.Event()

    @stuck.harness_thread
    def run():
        try:
            result["ok"] = sender.protocol.send_message(msg)
        except Exception as exc:
            result["exc"] = repr(exc)
        done.set()

    th = threading.Thread(target=run, daemon=True, name="harness-sender")
    th.start()
    finished = done.wait(10.0)
    wit = {"direction": f"{src}->{dst}", "body_len": body_len, "blocks": nblocks, "corrupt": corrupt, "S/F": sf}
    length_byte_hit = corrupt is not None and corrupt[1] == 0
    if not finished:
        if length_byte_hit:
            ctx.count("transfer.length_byte_corruption_waits")
            return "dead"
        if stuck.blocked_forever([th], watch=0.5):
            ctx.violation("send-call-blocked-forever", {**wit, "stacks": stuck.stacks()})
        else:
            ctx.unsure("send call did not return within 10 s but threads are still moving")
        return "dead"
    if "exc" in result:
        ctx.violation("send-raises", {**wit, "error": result["exc"]})
        return "dead"
    ok = result["ok"]
    expect_deliver = 1 if corrupt is None else 0
    receiver.wait(lambda: len(receiver.delivered) >= before + expect_deliver, timeout=3.0)
    time.sleep(0.002)
    if len(receiver.delivered) < before + expect_deliver:
        receiver.confirm_absent(lambda: len(receiver.delivered) >= before + expect_deliver)
    got = receiver.delivered[before:]
    with line.lock:
        trace = list(line.trace)
    blocks, err = check_trace(trace)
    ctx.count("oracle.trace_blocks", len(blocks))
    tw = {**wit, "trace": [(d, b[:6].hex() + (f"..({len(b)})" if len(b) > 6 else "")) for _, d, b in trace][:24]}
    if err and length_byte_hit and len(blocks) >= corrupt[0]:
        # a corrupted length byte makes the bytes on the line something other than a block (the receiver takes fewer or waits
        # for more bytes); what the two ends exchange after that point is not governed by the property
        ctx.count("trace.after_length_byte_corruption_not_judged")
    elif err:
        ctx.violation("line-trace-violates-handshake", {**tw, "error": err})
    if corrupt is None:
        ctx.count(f"transfer.clean.{'host_to_equipment' if src == 'H' else 'equipment_to_host'}")
        if not ok:
            ctx.violation("clean-transfer-reported-failure", tw)
            return "dead"
        if any(a != wire.ACK for _, _, a in blocks) or len(blocks) != nblocks:
            ctx.violation("clean-transfer-not-all-acked", {**tw, "acks": [a for _, _, a in blocks]})
        if nblocks > 1:
            line.__dict__.setdefault("completed_systems", {}).setdefault(src, []).append(system)
            del line.completed_systems[src][:-8]
        if len(got) != 1:
            ctx.violation("success-but-not-delivered-exactly-once", {**tw, "delivered": len(got)})
        else:
            g = got[0]
            want = {"system": system, "device_id": header.device_id, "rbit": src == "E", "wbit": wbit, "stream": sf[0], "function": sf[1]}
            gotf = {k: g[k] for k in want}
            if gotf != want or g["body"] != body:
                ctx.violation("delivered-message-differs", {**tw, "got": gotf, "want": want, "body_equal": g["body"] == body})
        return "ok"
    # corrupted transfer
    ctx.count("transfer.corrupted")
    if length_byte_hit:
        if ok:
            ctx.violation("corrupted-length-byte-but-success", tw)
        if got:
            ctx.violation("corrupted-length-byte-but-delivered", tw)
        return "dead"
    if ok:
        ctx.violation("corrupted-block-but-send-reports-success", tw)
    if got:
        ctx.violation("corrupted-block-delivered", {**tw, "delivered": len(got)})
    cidx = corrupt[0]
    if len(blocks) > cidx:
        if blocks[cidx][2] != wire.NAK:
            ctx.violation("corrupted-block-not-NAKed", {**tw, "answer": blocks[cidx][2]})
    elif not err:
        ctx.violation("corrupted-block-not-NAKed", {**tw, "answer": None})
    return "nak"


def _new_line(**timeouts):
    import secsgem.common
    from lib.secsirig import SecsIRig

    h = SecsIRig(device_type=secsgem.common.DeviceType.HOST, **timeouts)
    e = SecsIRig(device_type=secsgem.common.DeviceType.EQUIPMENT, **timeouts)
    return Line(h, e)


def _slow_line(ctx, header_only, rounds):
    """A slow line: the blocks of a message follow each other with pauses that are each shorter than the inter-block time-out T4
    but add up to more than T4. Every block is within its time: the message arrives whole."""
    rng = ctx.rng
    line = _new_line(t4=0.6)
    try:
        for _ in range(rounds):
            nblocks = rng.choice([3, 4, 5])
            line.block_pause = 0.6 * rng.choice([0.45, 0.6, 0.8])     # < T4 each, > T4 in total from the first block on
            ctx.count("transfer.slow_line_multi_block")
            res = _transfer(ctx, line, rng.choice("HE"), 244 * (nblocks - 1) + rng.randint(1, 200), rng.choice(header_only), False)
            line.block_pause = 0.0
            if res == "dead":
                line = _new_line(t4=0.6)
    finally:
        for end in line.ends.values():
            end.close()


def _api_send(ctx, line, src, classes):
    """The two sending calls of the application side: send_response(function, system) - the reply carries exactly the system bytes
    it was given, 0 and the other ends of the range included - and send_stream_function(function); success means the peer got
    the message once, with that header."""
    rng = ctx.rng
    dst = "E" if src == "H" else "H"
    sender, receiver = line.ends[src], line.ends[dst]
    cls = rng.choice(classes)
    line.reset()
    line.chunker = None
    before = len(receiver.delivered)
    api = rng.choice(["send_response", "send_response", "send_stream_function"])
    system = rng.choice([0, 0, 1, 0x7FFFFFFF, 0x80000000, 0xFFFFFFFF, rng.getrandbits(32)])
    box = {}
    done = threading.Event()

    @stuck.harness_thread
    def run():
        try:
            box["ok"] = sender.protocol.send_response(cls(), system) if api == "send_response" else sender.protocol.send_stream_function(cls())
        except Exception as exc:
            box["exc"] = repr(exc)
        done.set()
    th = threading.Thread(target=run, daemon=True, name="harness-sender")
    th.start()
    ctx.count(f"oracle.api_{api}")
    ctx.case(("api", api, src, cls.__name__, system if api == "send_response" else None))
    wit = {"direction": f"{src}->{dst}", "call": f"{api}({cls.__name__}()" + (f", {system:#x})" if api == "send_response" else ")")}
    if not done.wait(10.0):
        if stuck.blocked_forever([th], watch=0.5):
            ctx.violation("send-call-blocked-forever", {**wit, "stacks": stuck.stacks()})
        else:
            ctx.unsure("send call did not return within 10 s but threads are still moving")
        return "dead"
    if "exc" in box:
        ctx.violation("send-raises", {**wit, "error": box["exc"]})
        return "dead"
    if not box["ok"]:
        ctx.violation("clean-transfer-reported-failure", wit)
        return "dead"
    receiver.wait(lambda: len(receiver.delivered) > before, timeout=3.0)
    if len(receiver.delivered) <= before:
        receiver.confirm_absent(lambda: len(receiver.delivered) > before)
    time.sleep(0.002)
    got = receiver.delivered[before:]
    if len(got) != 1:
        ctx.violation("success-but-not-delivered-exactly-once", {**wit, "delivered": len(got)})
        return "ok"
    g = got[0]
    want = {"stream": cls.stream, "function": cls.function, "rbit": src == "E"}
    if api == "send_response":
        want["system"] = system
    gotf = {k: g[k] for k in want}
    if gotf != want or g["body"] != b"":
        ctx.violation("delivered-message-differs", {**wit, "got": gotf, "want": want, "body_len": len(g["body"])})
    return "ok"


def _concurrent_senders(ctx, header_only, rounds):
    """Several threads of one endpoint send multi-block messages at the same time: their blocks alternate on the line (every block
    carries the system bytes of its message, every block goes through the complete handshake).  Each message whose send reports
    success arrives exactly once and intact, and the handshake trace stays well-formed."""
    import secsgem.secsi.header as SH
    import secsgem.secsi.message as SM

    rng = ctx.rng
    line = _new_line()
    try:
        for _ in range(rounds):
            src = rng.choice("HE")
            dst = "E" if src == "H" else "H"
            sender, receiver = line.ends[src], line.ends[dst]
            line.reset()
            line.chunker = None
            before = len(receiver.delivered)
            k = rng.choice([2, 2, 3])
            msgs = []
            for _j in range(k):
                nb = rng.choice([1, 2, 3, 4])
                body = rng.randbytes(max(1, nb * 244 - rng.randint(0, 243)))
                sf = rng.choice(header_only)
                header = SH.SecsIHeader(sender.protocol.get_next_system_counter(), rng.randint(0, 0x7FFF), sf[0], sf[1], 0, src == "E", False)
                msgs.append((header, body, SM.SecsIMessage(header, body)))
            results = [None] * k
            go = threading.Event()

            def run(j):
                go.wait()
                try:
                    results[j] = sender.protocol.send_message(msgs[j][2])
                except Exception as exc:
                    results[j] = repr(exc)

            ths = [threading.Thread(target=stuck.harness_thread(lambda j=j: run(j)), daemon=True, name=f"harness-sender-{j}") for j in range(k)]
            for th in ths:
                th.start()
            go.set()
            for th in ths:
                th.join(15.0)
            ctx.count("transfer.concurrent_senders_rounds")
            ctx.count("transfer.concurrent_senders_messages", k)
            wit = {"direction": f"{src}->{dst}", "messages": [(h.system, len(m.blocks)) for h, _b, m in msgs], "results": [r if not isinstance(r, bool) else r for r in results]}
            if any(th.is_alive() for th in ths):
                if stuck.blocked_forever([th for th in ths if th.is_alive()], watch=0.5):
                    ctx.violation("send-call-blocked-forever:concurrent-senders", {**wit, "stacks": stuck.stacks()})
                else:
                    ctx.unsure("concurrent send calls did not return within 15 s but threads are still moving")
                line = _new_line()
                continue
            if any(r is not True for r in results):
                ctx.violation("clean-transfer-reported-failure:concurrent-senders", wit)
                line = _new_line()
                continue
            receiver.wait(lambda: len(receiver.delivered) >= before + k, timeout=3.0)
            if len(receiver.delivered) < before + k:
                receiver.confirm_absent(lambda: len(receiver.delivered) >= before + k)
            time.sleep(0.002)
            got = receiver.delivered[before:]
            with line.lock:
                trace = list(line.trace)
            blocks, err = check_trace(trace)
            ctx.count("oracle.trace_blocks", len(blocks))
            # did the blocks really alternate?
            order = [(wire.secs1_parse_block(b) or ({"system": None},))[0]["system"] for _s, b, _a in blocks]
            if len(set(order)) > 1 and any(order[i] != order[i + 1] and order[i] in order[i + 1:] for i in range(len(order) - 1)):
                ctx.count("transfer.concurrent_senders_blocks_alternated")
            tw = {**wit, "block_order": order[:16], "delivered": [(g["system"], len(g["body"])) for g in got]}
            if err:
                ctx.violation("line-trace-violates-handshake:concurrent-senders", {**tw, "error": err})
            for header, body, _m in msgs:
                mine = [g for g in got if g["system"] == header.system]
                if len(mine) != 1:
                    ctx.violation("success-but-not-delivered-exactly-once:concurrent-senders", {**tw, "system": header.system, "times": len(mine)})
                    break
                g = mine[0]
                if g["body"] != body or (g["stream"], g["function"], g["device_id"]) != (header.stream, header.function, header.device_id):
                    ctx.violation("delivered-message-differs:concurrent-senders", {**tw, "system": header.system, "body_equal": g["body"] == body})
                    break
            if len(got) > k:
                ctx.violation("more-messages-delivered-than-sent:concurrent-senders", tw)
    finally:
        for end in line.ends.values():
            end.close()


def run(ctx):
    from lib import gen
    from secsgem.secs.functions._all import secs_streams_functions

    rng = ctx.rng
    header_only = sorted((f.stream, f.function) for f in secs_streams_functions if f._data_format is None)
    line = _new_line()

    def chunker_for(kind):
        if kind == "whole":
            return None
        if kind == "bytes":
            return lambda n: [1] * n
        return lambda n: gen.partitions(rng, n, "random")

    # enumerated corruption positions over one single-block and one two-block message
    idx = 0
    for nblocks, body_len in ((1, 30), (2, 244 + 20)):
        for blk in range(nblocks):
            blen = 13 + (body_len if nblocks == 1 else (244 if blk == 0 else 20))
            for off in range(1, blen):   # header, data and checksum bytes (offset 0 is the length byte)
                idx += 1
                if not ctx.mine(idx):
                    continue
                src = "H" if idx % 2 else "E"
                line.chunker = chunker_for(rng.choice(["whole", "random"]))
                ctx.case(("corrupt-enum", nblocks, blk, off))
                ctx.count("enumerated.corruption_positions")
                res = _transfer(ctx, line, src, body_len, rng.choice(header_only), rng.random() < 0.5, corrupt=(blk, off, rng.choice([1, 0x80, 0xFF])))
                if res == "dead":
                    line = _new_line()
                # a clean transfer must still work afterwards
                line.chunker = None
                if _transfer(ctx, line, src, rng.choice([0, 5]), rng.choice(header_only), False) == "dead":
                    line = _new_line()
    ctx.exhaustive["corruption_position_of_two_fixed_messages"] = True
    _slow_line(ctx, header_only, 2 if ctx.quick else 40)
    _concurrent_senders(ctx, header_only, 6 if ctx.quick else 300)
    ho_classes = sorted((f for f in secs_streams_functions if f._data_format is None), key=lambda c: (c.stream, c.function))
    for j in range(30 if ctx.quick else 1500):
        if _api_send(ctx, line, "HE"[j % 2], ho_classes) == "dead":
            line = _new_line()
    n = 300 if ctx.quick else 10000
    max_blocks = 3 if ctx.quick else 40
    from lib import sched
    inj = sched.YieldInjector(["secsgem/secsi/protocol.py", "secsgem/common/byte_queue.py", "secsgem/common/protocol_dispatcher.py"])
    inj.install()
    sigs = set()
    for i in range(n):
        injecting = i % 3 == 0
        if injecting:
            inj.begin(rng.getrandbits(32), p=rng.choice([0.1, 0.3]))
        src = "H" if i % 2 == 0 else "E"
        nb = rng.choice([0, 1, 1, 2, 3]) if rng.random() < 0.8 else rng.randint(1, max_blocks)
        body_len = 0 if nb == 0 else rng.choice([1, 243, 244]) if nb == 1 and rng.random() < 0.5 else max(1, nb * 244 - rng.randint(0, 243))
        kind = rng.choice(["whole", "bytes", "random", "random"])
        if body_len > 2000 and kind == "bytes":
            kind = "random"
        line.chunker = chunker_for(kind)
        corrupt = None
        if rng.random() < 0.25:
            nblocks = max(1, -(-body_len // 244))
            blk = rng.randrange(nblocks)
            blen = 13 + (244 if blk < nblocks - 1 else body_len - 244 * (nblocks - 1))
            off = rng.randrange(0 if rng.random() < 0.03 else 1, blen)
            corrupt = (blk, off, rng.randint(1, 255))
        ctx.case(("transfer", src, body_len, kind, corrupt))
        if i < 2:
            ctx.sample({"direction": src, "body_len": body_len, "chunking": kind, "corrupt(block,offset,mask)": corrupt})
        res = _transfer(ctx, line, src, body_len, rng.choice(header_only), rng.random() < 0.5, corrupt=corrupt)
        if res == "nak" and corrupt is not None and corrupt[0] >= 1 and rng.random() < 0.7:
            # the sender gave up on a multi-block message after some of its blocks had been accepted; it sends the message again
            ctx.count("transfer.same_message_again_after_a_NAK")
            line.chunker = None
            sf_again = (line.last_message[0].stream, line.last_message[0].function)
            res = _transfer(ctx, line, src, body_len, sf_again, line.last_message[0].require_response, reuse=line.last_message)
        if injecting:
            sig, yields, _ = inj.end()
            sigs.add(sig)
            ctx.count("yields_injected", yields)
        if res == "dead":
            line = _new_line()
    inj.uninstall()
    ctx.count("interleaving.distinct_signatures", len(sigs))
    for end in line.ends.values():
        end.close(2.0)
