"""C15 - SML text of any item parses back to the same item; the parser terminates.

Monitors: Item.from_sml(item.to_sml()) re-encoded vs the original (type structure and values); every
from_sml call runs under a logical step budget (sys.monitoring LINE events in the SML/item modules);
structural mutants (one closing '>' removed, a type name replaced by a non-type) must raise.
"""

from __future__ import annotations

import math
import signal

from checks.c14 import _items, to_item
from lib import e5ref, gen, steps

PROPERTY = "C15"
LEVEL = "exploration"
RULE = ("items from the typed-tree generator (all types, nesting <= 6, empty items, every single character for A and J "
        "enumerated, texts with quotes, brackets, whitespace, control and non-ASCII characters) printed with to_sml "
        "and parsed back; fuzz texts over the SML token alphabet and 1-3 edit mutants of valid SML; structural mutants; "
        "distinct by SML text; non-trivial when the text has at least one value token")
ASSUMPTIONS = ["trailing text after a complete item need not be rejected", "any exception counts as rejection",
               "termination is decided on a budget of interpreter line events proportional to the input length"]
LEVEL_TEXT = ("Runtime monitoring of the real printer/parser pair on generated items and hostile texts, with a logical "
              "step-count termination oracle; single-character texts are enumerated, the rest sampled.")
LEVEL_NOTE = "Sampled; termination is judged against a generous step budget (2000 + 600 line events per input character)."
TECHNIQUE = "runtime round-trip monitor + step-budget termination oracle (sys.monitoring) over generated and fuzzed SML"
SHARDS = {"quick": 8, "thorough": 16}
TIMEOUT = {"quick": 300, "thorough": 3000}
FLOORS = {"oracle.roundtrip": 1000, "oracle.fuzz": 1000, "oracle.missing_bracket": 300, "oracle.unknown_type": 300,
          "exhaustive.single_char": 256 + 191}

TOKENS = ["<", ">", "[", "]", " ", "\n", "\t", '"', "'", "L", "A", "J", "B", "U1", "U8", "I2", "BOOLEAN", "F4", "F8", "l", "u1",
          "0x1", "0x", "12", "-3", "1.5", "1e400", "abc", "XQ", ".", ">.", "0xff61", "256", "\"a b\"", "\"<\"", "[2]", "[0]", "\r"]
SPECIAL_TEXT = ['"', '""', 'a"b', '"ab', 'ab"', "'", "it's", "<", ">", "a>b", "< U1 1 >", "[", "]", " ", "  ", " a", "a ", "\t", "\x0b",
                "\x0c", "a\tb", "\n", "\r", "a\nb", "\x00", "\x7f", "\x80", "\xff", "\xa5", "\\", "~", "0x41", "a\x00b", '\x00"', '"\x00']


def _finite(tree):
    fmt, val = tree
    if fmt == "L":
        return all(_finite(c) for c in val)
    if fmt in ("F4", "F8"):
        return all(math.isfinite(v) for v in val)
    return True


def _quote_free(tree):
    fmt, val = tree
    if fmt == "L":
        return all(_quote_free(c) for c in val)
    if fmt in ("A", "J"):
        return b'"' not in bytes(val) and b"'" not in bytes(val)
    return True


def _structural_positions(sml):
    """Indices of structural '<' and '>' of SML text whose quoted literals contain no quote characters."""
    opens, closes = [], []
    in_q = False
    for i, ch in enumerate(sml):
        if ch == '"':
            in_q = not in_q
        elif not in_q:
            if ch == "<":
                opens.append(i)
            elif ch == ">":
                closes.append(i)
    return opens, closes


class Monitor:
    def __init__(self, ctx):
        self.ctx = ctx
        self.I, self.Icls = _items()
        self.counter = steps.StepCounter(["secsgem/secs/sml.py", "secsgem/secs/item"])
        self.counter.install()

    def parse(self, text):
        limit = 2000 + 600 * len(text)
        res, exc, n = self.counter.run(limit, self.I.Item.from_sml, text)
        self.ctx.maximum("max_steps_per_char_x100", int(100 * n / max(1, len(text))))
        if isinstance(exc, steps.StepBudgetExceeded):
            self.ctx.violation("parser-exceeds-step-budget", {"text": text[:300], "steps": n, "budget": limit})
        return res, exc

    def roundtrip(self, tree, mech, indent=0):
        ctx = self.ctx
        try:
            item = to_item(tree, self.Icls)
            ref = item.encode()
        except Exception:
            ctx.count("rejected.items")
            return
        if ref != e5ref.encode(tree):
            return  # C14's business
        try:
            sml = item.to_sml(indent) if indent else item.to_sml()
        except Exception as exc:
            ctx.violation(f"to_sml-raises:{mech}:{type(exc).__name__}", {"tree": gen.describe(tree), "error": repr(exc)[:200]})
            return
        nontrivial = tree[0] == "L" and len(tree[1]) > 0 or tree[0] != "L" and len(e5ref.payload(tree)) > 0
        ctx.case(sml, nontrivial=nontrivial)
        ctx.count("oracle.roundtrip")
        back, exc = self.parse(sml)
        wit = {"tree": gen.describe(tree), "sml": sml[:400]}
        if exc is not None:
            if not isinstance(exc, steps.StepBudgetExceeded):
                ctx.violation(f"roundtrip-raises:{mech}:{type(exc).__name__}", {**wit, "error": repr(exc)[:300]})
            return
        try:
            enc = back.encode()
        except Exception as exc:
            ctx.violation(f"roundtrip-reencode-raises:{mech}:{type(exc).__name__}", {**wit, "error": repr(exc)[:200]})
            return
        if enc != ref:
            ctx.violation(f"roundtrip-differs:{mech}", {**wit, "original": ref[:100], "reparsed": enc[:100]})
        return sml

    def must_reject(self, text, kind, origin):
        ctx = self.ctx
        ctx.case((kind, text))
        ctx.count(f"oracle.{kind}")
        res, exc = self.parse(text)
        if exc is None:
            ctx.violation(f"accepted:{kind}", {"text": text[:400], "from": origin[:400], "result": repr(res)[:200]})

    def fuzz(self, text):
        ctx = self.ctx
        ctx.case(("fuzz", text), nontrivial=len(text) > 2)
        ctx.count("oracle.fuzz")
        res, exc = self.parse(text)
        if exc is None:
            ctx.count("fuzz.returned_item")
            if not isinstance(res, self.I.Item):
                ctx.violation("fuzz-returned-non-item", {"text": text[:300], "result": repr(res)[:200]})
        else:
            ctx.count("fuzz.raised")


def _text_tree(rng, fmt, text_bytes):
    return (fmt, bytes(text_bytes))


def run(ctx):
    rng = ctx.rng
    mon = Monitor(ctx)

    def alarm(signum, frame):  # wall-clock backstop only: inconclusive, never a verdict
        raise TimeoutError("watchdog")

    try:
        if ctx.shard == 0:
            for b in range(256):
                mon.roundtrip(("A", bytes([b])), "A:single-char")
                mon.roundtrip(("A", bytes([0x41, b, 0x42])), "A:char-in-text")
                ctx.count("exhaustive.single_char")
            for b in sorted(e5ref.JIS8):
                mon.roundtrip(("J", bytes([b])), "J:single-char")
                mon.roundtrip(("J", bytes([0x41, b, 0x42])), "J:char-in-text")
                ctx.count("exhaustive.single_char")
            ctx.exhaustive["single_character_texts_A_and_J"] = True
            for s in SPECIAL_TEXT:
                raw = s.encode("latin-1")
                mon.roundtrip(("A", raw), "A:special")
                mon.roundtrip(("L", [("A", raw), ("U1", [1])]), "L:special")
                if all(b in e5ref.JIS8 for b in raw) and "\\" not in s and "~" not in s:
                    mon.roundtrip(("J", raw), "J:special")
            for fmt in gen.LEAF_FMTS:
                mon.roundtrip((fmt, b"" if fmt in ("A", "J", "B") else []), f"{fmt}:empty")
            mon.roundtrip(("L", []), "L:empty")
            mon.roundtrip(("L", [("L", []), ("L", [("L", [])])]), "L:empty")
        n = 3000 if ctx.quick else 60000
        for i in range(n):
            r = i % 10
            if r < 5:
                tree = gen.tree(rng, rng.choice([0, 0, 1, 2, 3, 6]), 4)
                if not _finite(tree):
                    continue
                sml = mon.roundtrip(tree, tree[0], indent=rng.choice([0, 0, 2, 4]))
                ctx.maximum("nesting_depth", gen.depth_of(tree))
                if i < 2 and sml:
                    ctx.sample({"tree": gen.describe(tree), "sml": sml[:200]})
                if sml and _quote_free(tree):
                    opens, closes = _structural_positions(sml)
                    if closes:
                        k = rng.choice(closes)
                        mon.must_reject(sml[:k] + sml[k + 1:], "missing_bracket", sml)
                        # the same text the way an SML file ends a message (a period behind the item), and with a period or
                        # another stray token where the bracket was: the bracket is still missing
                        mon.must_reject(sml[:k] + sml[k + 1:] + rng.choice([" .", "\n.", " . ", ".\n"]), "missing_bracket_before_period", sml)
                        mon.must_reject(sml[:k] + rng.choice([" . ", " .", ". ", " ] ", " ) ", " ; "]) + sml[k + 1:],
                                        "missing_bracket_replaced_by_other_token", sml)
                    if opens:
                        k = rng.choice(opens)
                        # the type name is the token after '<'
                        j = k + 1
                        while j < len(sml) and sml[j] == " ":
                            j += 1
                        e = j
                        while e < len(sml) and sml[e] not in " >\n[":
                            e += 1
                        bad = rng.choice(["XQ", "U3", "LL", "STRING", "I", "F", "U16", "a1", "NONE"])
                        mon.must_reject(sml[:j] + bad + sml[e:], "unknown_type", sml)
            elif r < 6:
                # text-heavy items
                chars = [rng.choice(SPECIAL_TEXT) if rng.random() < 0.4 else chr(rng.randint(0, 255)) for _ in range(rng.randint(1, 6))]
                raw = "".join(chars).encode("latin-1")
                mon.roundtrip(("A", raw), "A:text")
                jraw = bytes(b for b in raw if b in e5ref.JIS8 and b not in (0x5C, 0x7E)) or b"a"
                mon.roundtrip(("J", jraw + bytes([rng.choice(sorted(e5ref.JIS8))])), "J:text")
            elif r < 8:
                k = rng.randint(1, 14)
                text = "".join(rng.choice(TOKENS) + rng.choice(["", " ", " ", "\n"]) for _ in range(k))
                mon.fuzz(text)
            else:
                tree = gen.tree(rng, 2, 3)
                if not _finite(tree):
                    continue
                try:
                    sml = to_item(tree, mon.Icls).to_sml()
                except Exception:
                    continue
                s = list(sml)
                for _ in range(rng.randint(1, 3)):
                    op = rng.random()
                    pos = rng.randrange(len(s) + 1)
                    if op < 0.35 and s:
                        del s[min(pos, len(s) - 1)]
                    elif op < 0.7:
                        s.insert(pos, rng.choice(TOKENS))
                    elif s:
                        s[min(pos, len(s) - 1)] = rng.choice(TOKENS)
                mon.fuzz("".join(s))
    finally:
        mon.counter.uninstall()
