"""C13 - status variables, equipment constants and alarms answer as a reference model predicts.

A real GemEquipmentHandler with own status variables, equipment constants and alarms (COMMUNICATING over the
in-memory connection) receives random histories of S1F3, S1F11, S2F13, S2F15, S2F29, S5F3, S5F5, S5F7 with
arbitrary id lists (known, unknown, repeated, every integer format, text ids) and values (in range, at the
bounds, outside), interleaved with set_alarm / clear_alarm and value updates. Reply bodies are decoded by the
independent E5 decoder and compared with reference tables; S2F15 must be all-or-nothing and never leave a
constant outside its bounds; S5F1 must be sent exactly for set/clear changes of enabled alarms.
"""

from __future__ import annotations

import itertools
import threading

from lib import e5ref, gen, stuck, vtime, wire

PROPERTY = "C13"
LEVEL = "exploration"
RULE = ("(constants include ranges whose limits are 0) "
        "random histories (<= 25 steps, thorough <= 80) over the eight request types with id lists mixing known, unknown and "
        "repeated ids in every integer format that holds them plus text ids, ECVs in range / at min / at max / +-1 outside / in "
        "another numeric format, alarm set/clear and SV/EC value updates; distinct by request sequence; non-trivial when "
        "at least three different request types were answered; plus: one alarm taken through 6-12 enable / disable / set / clear steps; a callback constant whose value lives in a store of the equipment, the predefined constants 1 and 2 (establish-communications time-out given as settings option 10/30/45, time format), constants observed through S2F13 snapshots; the clock SV format follows constant 2; ids that belong to another table (data values, constants, status variables, alarms) among the unknown ids of every request")
ASSUMPTIONS = ["for an unknown alarm id in S5F5 any single reply is accepted", "ALED values other than 0/128 are not generated",
               "the clock SV is checked for format only", "an ECV sent in a numeric format different from the constant's own is "
               "either refused without effect or accepted such that the constant stays within bounds and S2F13 still answers"]
LEVEL_TEXT = ("Runtime monitoring of the real capability handlers against reference tables (independent E5 decoding of every "
              "reply) over sampled histories.")
LEVEL_NOTE = "Histories sampled; tables are the harness's own configuration of the equipment."
TECHNIQUE = "runtime reference-table monitor with independent reply decoding over generated request histories"
SHARDS = {"quick": 8, "thorough": 16}
TIMEOUT = {"quick": 400, "thorough": 3400}
FLOORS = {"req.S1F3": 30, "req.S1F11": 30, "req.S2F13": 30, "req.S2F29": 30, "req.S5F5": 30, "req.S5F7": 30, "req.S5F3": 30,
          "req.S2F15.accepted": 10, "req.S2F15.refused": 10, "alarm.changes_with_report": 10, "alarm.changes_without_report": 10}

INT_FORMATS = ["U1", "U2", "U4", "U8", "I1", "I2", "I4", "I8"]


def id_tree(rng, ident):
    if isinstance(ident, str):
        return ("A", ident.encode())
    fits = [f for f in INT_FORMATS if e5ref.NUM[f][2] <= ident <= e5ref.NUM[f][3]]
    return (rng.choice(fits), [ident])


def plain(tree):
    fmt, val = tree
    if fmt == "L":
        return [plain(c) for c in val]
    if fmt in ("A", "J"):
        return bytes(val).decode("latin-1")
    if fmt == "B":
        return bytes(val)
    v = list(val)
    return v[0] if len(v) == 1 else v


def is_empty_item(tree):
    fmt, val = tree
    return len(val) == 0


class Run:
    def __init__(self, ctx):
        import secsgem.secs.variables as V
        from lib.gemrig import GemRig
        from secsgem.gem import Alarm, EquipmentConstant, StatusVariable

        self.ctx = ctx
        self.V = V
        import secsgem.gem

        store = self.cb_store = {}

        class Equipment(secsgem.gem.GemEquipmentHandler):
            """An equipment that keeps the values of its callback constants in a store of its own (documented overrides)."""

            def on_ec_value_request(self, ecid, ec):
                return ec.value_type(store[ec.ecid])

            def on_ec_value_update(self, ecid, ec, value):
                store[ec.ecid] = value

        self.ect0 = ctx.rng.choice([10, 30, 45])       # settings option: establish communications time-out (also constant 1)
        self.rig = GemRig(role="equipment", t3=2.0, handler_cls=Equipment, establish_communication_timeout=self.ect0)
        self.ok = self.rig.establish()
        h = self.h = self.rig.handler
        # own tables (the reference is what the harness configured)
        self.sv = {10: ("U4", 7, "sv_ten", "mm"), "sv_a": ("A", "hello", "sv_text", ""), 12: ("F8", 1.5, "sv_f", "V")}
        for k, (fmt, val, name, unit) in self.sv.items():
            o = StatusVariable(k, name, unit, getattr(V, {"A": "String"}.get(fmt, fmt)), use_callback=False)
            o.value = val
            h.status_variables[k] = o
        self.ec = {20: ("I2", -100, 100, 5, "ec_i2", "u"), 21: ("U4", 10, 1000, 50, "ec_u4", "s"), 22: ("F4", -1.5, 2.5, 0.5, "ec_f4", ""),
                   23: ("U1", None, None, 9, "ec_free", ""), "ec_t": ("U2", 0, 9, 3, "ec_text", ""),
                   # limits that are zero (a limit of 0 is a limit, not "no limit")
                   24: ("I2", -50, 0, -5, "ec_max0", ""), 25: ("I4", 0, 0, 0, "ec_zero", ""), 26: ("F4", -1.5, 0.0, -0.5, "ec_fmax0", ""),
                   27: ("I2", 0, 40, 4, "ec_min0", ""),
                   # only one limit declared
                   29: ("I2", -5, None, 3, "ec_min_only", ""), 30: ("I4", None, 70, 7, "ec_max_only", ""), 31: ("I2", 0, None, 2, "ec_min0_only", "")}
        for k, (fmt, lo, hi, d, name, unit) in self.ec.items():
            h.equipment_constants[k] = EquipmentConstant(k, name, lo, hi, d, unit, getattr(V, fmt), use_callback=False)
        self.ecval = {k: v[3] for k, v in self.ec.items()}
        # constants whose value does not live in the EquipmentConstant object: a callback constant (store above, holding another
        # value than the declared default) and the two constants the library predefines (settings / internal state)
        self.ec[28] = ("U2", 0, 100, 7, "ec_callback", "")
        h.equipment_constants[28] = EquipmentConstant(28, "ec_callback", 0, 100, 7, "", V.U2, use_callback=True)
        store[28] = 33
        self.ecval[28] = 33
        self.ec[1] = ("I2", 10, 120, 10, "EstablishCommunicationsTimeout", "sec")
        self.ecval[1] = self.ect0
        self.ec[2] = ("I4", 0, 2, 1, "TimeFormat", "")
        self.ecval[2] = 1
        # ids of the *other* tables: a data value or constant id is not a status variable id (and the other way round)
        from secsgem.gem import DataValue
        for k, fmt, val in ((40, V.U4, 4040), ("dv_t", V.String, "dv-text")):
            dv = DataValue(k, f"dv_{k}", fmt, use_callback=False)
            dv.value = val
            h.data_values[k] = dv
        self.al = {100: ("al100", "text one", 3), 101: ("al101", "second", 65), 70000: ("al70000", "x-text", 1)}
        for k, (name, text, code) in self.al.items():
            h.alarms[k] = Alarm(k, name, text, code, 5000 + len(h.alarms), 6000 + len(h.alarms))
        self.al_enabled = {k: False for k in self.al}
        self.al_set = {k: False for k in self.al}
        self.hist = []
        self.kinds = set()
        self.bad = False
        self.sysgen = gen.system_bytes(ctx.rng, 0x50000000 + ctx.rng.randrange(1 << 16) * 512, p=0.03)

    def violation(self, mech, **kw):
        self.ctx.violation(mech, {"history": self.hist[-12:], **kw})
        self.bad = True

    def request(self, s, f, body):
        system = next(self.sysgen)
        n0 = self.rig.n_frames()
        self.rig.inject(s, f, True, body, system)
        self.rig.wait(lambda: any(fr.system == system for _, fr in self.rig.data_frames(n0)), 3.0)
        got = [fr for _, fr in self.rig.data_frames(n0) if fr.system == system]
        if len(got) != 1:
            if not got:
                self.rig.confirm_absent(lambda: any(fr.system == system for _, fr in self.rig.data_frames(n0)), 0.4)
                got = [fr for _, fr in self.rig.data_frames(n0) if fr.system == system]
            if len(got) != 1:
                self.violation(f"S{s}F{f}-not-answered-once", replies=[g.describe() for g in got])
                return None
        return got[0]

    def reply_tree(self, fr, s, f, what):
        if fr is None:
            return None
        if (fr.stream, fr.function) != (s, f):
            self.violation(f"{what}-answered-with-S{fr.stream}F{fr.function}", body=fr.body[:40])
            return None
        try:
            return e5ref.decode_all(fr.body)
        except Exception as exc:
            self.violation(f"{what}-reply-not-valid-E5", body=fr.body[:60], error=repr(exc))
            return None

    def ids(self, known, unknown_pool):
        rng = self.ctx.rng
        n = rng.choice([0, 1, 1, 2, 3, 5])
        out = []
        for _ in range(n):
            out.append(rng.choice(list(known)) if rng.random() < 0.7 else rng.choice(unknown_pool))
        return out

    # ------------------------------------------------------------------ expected values
    def sv_expected(self, k):
        if k in self.sv:
            fmt, val = self.sv[k][0], self.sv[k][1]
            return (fmt, val.encode() if fmt == "A" else [val])
        if k == 1002:
            code = {"EQUIPMENT_OFFLINE": 1, "ATTEMPT_ONLINE": 2, "HOST_OFFLINE": 3, "ONLINE_LOCAL": 4, "ONLINE_REMOTE": 5}[self.h.control_state.current.name]
            return ("B", bytes([code]))
        return None

    def do_s1f3(self):
        rng = self.ctx.rng
        known = list(self.sv) + [1002, 1001, 1004, 1005]
        ids = self.ids(known, [77, 0, 65000, "nope", 2**40, 40, "dv_t", 20, 21, "ec_t", 100])
        zero_len = rng.random() < 0.04
        trees = [id_tree(rng, i) for i in ids]
        if zero_len:
            trees.append(("U4", []))
        self.hist.append(f"S1F3{ids}{'+<U4>' if zero_len else ''}")
        t = self.reply_tree(self.request(1, 3, e5ref.encode(("L", trees))), 1, 4, "S1F3")
        if t is None:
            return
        self.ctx.count("req.S1F3")
        self.kinds.add("S1F3")
        vals = t[1] if t[0] == "L" else None
        if vals is None:
            self.violation("S1F4-not-a-list")
            return
        if not trees:
            n_all = len(self.h.status_variables)
            if len(vals) != n_all:
                self.violation("S1F3-empty-request-does-not-return-all", got=len(vals), want=n_all)
            return
        if len(vals) != len(trees):
            self.violation("S1F4-item-count-differs-from-request", got=len(vals), want=len(trees))
            return
        for i, (ident, v) in enumerate(zip(ids + ([None] if zero_len else []), vals)):
            if ident is None or (ident not in self.sv and ident not in (1001, 1002, 1003, 1004, 1005)):
                if not is_empty_item(v):
                    self.violation("unknown-SVID-not-answered-with-empty-item", index=i, ident=ident, got=e5ref.encode(v).hex())
                    return
                continue
            if ident == 1001:
                # E5 TIME: 12 characters (TimeFormat 0), 16 characters (1) or the extended ISO form (2); TimeFormat is constant 2
                tf = self.ecval.get(2, 1)
                ok = v[0] == "A" and ((tf == 0 and len(v[1]) == 12) or (tf == 1 and len(v[1]) == 16) or
                                      (tf == 2 and len(v[1]) >= 19 and bytes(v[1])[4:5] == b"-" and bytes(v[1])[10:11] == b"T"))
                if not ok:
                    self.violation("clock-SV-format", got=e5ref.encode(v).hex(), time_format=tf)
                    return
                continue
            if ident in (1004, 1005):
                want = [k for k in self.al if (self.al_enabled if ident == 1004 else self.al_set)[k]]
                got = plain(v) if v[0] == "L" else None
                if got is None or sorted(map(str, got)) != sorted(map(str, want)):
                    self.violation(f"SV{ident}-alarm-list-differs", got=got, want=want)
                    return
                continue
            want = self.sv_expected(ident)
            if not e5ref.tree_equal(v, want):
                self.violation("SV-value-differs", ident=ident, got=e5ref.encode(v).hex(), want=e5ref.encode(want).hex())
                return

    def do_s1f11(self):
        rng = self.ctx.rng
        ids = self.ids(list(self.sv) + [1002], [77, "zz", 70000, 40, "dv_t", 20, "ec_t"])
        self.hist.append(f"S1F11{ids}")
        t = self.reply_tree(self.request(1, 11, e5ref.encode(("L", [id_tree(rng, i) for i in ids]))), 1, 12, "S1F11")
        if t is None:
            return
        self.ctx.count("req.S1F11")
        self.kinds.add("S1F11")
        rows = plain(t)
        if not ids:
            if len(rows) != len(self.h.status_variables):
                self.violation("S1F11-empty-request-does-not-return-all", got=len(rows))
            return
        want = []
        for i in ids:
            if i in self.sv:
                want.append([i, self.sv[i][2], self.sv[i][3]])
            elif i == 1002:
                want.append([1002, "ControlState", ""])
            else:
                want.append([i, "", ""])
        if rows != want:
            self.violation("S1F12-differs", got=rows, want=want)

    def snapshot(self):
        """What the equipment reports for every constant right now (S2F13 for all of them): the observable state."""
        keys = list(self.ec)
        t = self.reply_tree(self.request(2, 13, e5ref.encode(("L", [("A", k.encode()) if isinstance(k, str) else ("U4", [k]) for k in keys]))), 2, 14, "S2F13-snapshot")
        if t is None:
            return None
        if len(t[1]) != len(keys) or any(len(v[1]) != 1 for v in t[1]):
            self.violation("S2F13-snapshot-malformed", got=[e5ref.encode(v).hex() for v in t[1]][:8])
            return None
        return {k: v[1][0] for k, v in zip(keys, t[1])}

    def ec_tree(self, k):
        fmt = self.ec[k][0]
        return (fmt, [self.ecval[k]])

    def do_s2f13(self):
        rng = self.ctx.rng
        ids = self.ids(list(self.ec), [77, "nope", 300, 40, "dv_t", 10, 12, "sv_a", 1002])
        self.hist.append(f"S2F13{ids}")
        t = self.reply_tree(self.request(2, 13, e5ref.encode(("L", [id_tree(rng, i) for i in ids]))), 2, 14, "S2F13")
        if t is None:
            return
        self.ctx.count("req.S2F13")
        self.kinds.add("S2F13")
        vals = t[1]
        if not ids:
            if len(vals) != len(self.h.equipment_constants):
                self.violation("S2F13-empty-request-does-not-return-all", got=len(vals))
            return
        if len(vals) != len(ids):
            self.violation("S2F14-item-count-differs-from-request", got=len(vals), want=len(ids))
            return
        for ident, v in zip(ids, vals):
            if ident not in self.ec:
                if not is_empty_item(v):
                    self.violation("unknown-ECID-not-answered-with-empty-item", ident=ident, got=e5ref.encode(v).hex())
                    return
                continue
            want = self.ec_tree(ident)
            if v[0] != want[0] or len(v[1]) != 1 or (abs(v[1][0] - want[1][0]) > 1e-6 if want[0] == "F4" else v[1][0] != want[1][0]):
                self.violation("EC-value-differs", ident=ident, got=[v[0], list(v[1])], want=[want[0], want[1]])
                return

    def do_s2f29(self):
        rng = self.ctx.rng
        ids = self.ids(list(self.ec), [77, "nope", 40, "dv_t", 10, "sv_a"])
        self.hist.append(f"S2F29{ids}")
        t = self.reply_tree(self.request(2, 29, e5ref.encode(("L", [id_tree(rng, i) for i in ids]))), 2, 30, "S2F29")
        if t is None:
            return
        self.ctx.count("req.S2F29")
        self.kinds.add("S2F29")
        rows = plain(t)
        if not ids:
            if len(rows) != len(self.h.equipment_constants):
                self.violation("S2F29-empty-request-does-not-return-all", got=len(rows))
            return
        if len(rows) != len(ids):
            self.violation("S2F30-item-count-differs-from-request", got=len(rows), want=len(ids))
            return
        for ident, row in zip(ids, rows):
            if ident in self.ec:
                fmt, lo, hi, d, name, unit = self.ec[ident]
                want = [ident, name, "" if lo is None else lo, "" if hi is None else hi, d, unit]
            else:
                want = [ident, "", "", "", "", ""]
            ok = len(row) == 6 and all((abs(a - b) < 1e-6 if isinstance(a, float) or isinstance(b, float) else a == b)
                                       if isinstance(a, (int, float)) and isinstance(b, (int, float)) and not isinstance(a, bool) else a == b
                                       for a, b in zip(row, want))
            if not ok:
                self.violation("S2F30-row-differs", ident=ident, got=row, want=want)
                return

    def do_s2f15(self):
        rng = self.ctx.rng
        n = rng.choice([1, 1, 2, 3])
        entries = []
        valid = True
        other_format = False
        for _ in range(n):
            if rng.random() < 0.12:
                k = rng.choice([77, "nope"])
                entries.append((k, ("U1", [1])))
                valid = False
                continue
            k = rng.choice(list(self.ec))
            fmt, lo, hi, d, name, unit = self.ec[k]
            _, _, tmin, tmax = e5ref.NUM[fmt]
            choice = rng.choice(["in", "in", "min", "max", "below", "above", "otherfmt"])
            if fmt == "F4":
                val = {"in": round(rng.uniform(lo, hi), 3), "min": lo, "max": hi, "below": lo - 0.5, "above": hi + 0.5}.get(choice, 1.0)
                tree = ("F4", [e5ref.f32(val)])
                if choice == "otherfmt":
                    tree = ("F8", [1.25])
                    val = 1.25
                    other_format = True
            else:
                lo2 = tmin if lo is None else lo
                hi2 = tmax if hi is None else hi
                val = {"in": rng.randint(lo2, hi2), "min": lo2, "max": hi2, "below": lo2 - 1, "above": hi2 + 1}.get(choice, lo2)
                tree = None
                if choice == "otherfmt":
                    val = rng.randint(max(lo2, 0), min(hi2, 100))
                    ofmt = rng.choice([f for f in ["U1", "I8", "U8", "F4", "F8"] if f != fmt])
                    tree = (ofmt, [float(val) + (0.5 if ofmt in ("F4", "F8") and val + 1 <= hi2 and rng.random() < 0.5 else 0.0) if ofmt in ("F4", "F8") else val])
                    val = tree[1][0]
                    other_format = True
                elif not (tmin <= val <= tmax):
                    # not representable in the constant's own format: send it in a wider one
                    tree = ("I8", [val])
                    other_format = True
                else:
                    tree = (fmt, [val])
            if (lo is not None and val < lo) or (hi is not None and val > hi):
                valid = False
            entries.append((k, tree))
        body = e5ref.encode(("L", [("L", [id_tree(rng, k), t]) for k, t in entries]))
        self.hist.append(f"S2F15{[(k, t[0], t[1]) for k, t in entries]}")
        before = self.snapshot()
        if before is None:
            return
        fr = self.request(2, 15, body)
        if fr is None:
            return
        self.kinds.add("S2F15")
        after = self.snapshot()
        if after is None:
            return
        if (fr.stream, fr.function) == (2, 0):
            eac = "abort"
        else:
            t = self.reply_tree(fr, 2, 16, "S2F15")
            if t is None:
                return
            eac = plain(t)
            eac = eac[0] if isinstance(eac, bytes) and len(eac) == 1 else eac
        # never outside bounds
        for k, (fmt, lo, hi, d, name, unit) in self.ec.items():
            v = after[k]
            if (lo is not None and v < lo) or (hi is not None and v > hi):
                self.violation("constant-outside-its-bounds-after-S2F15", ident=k, value=v, bounds=[lo, hi], eac=eac)
                return
        if eac != 0:
            self.ctx.count("req.S2F15.refused")
            if after != before:
                self.violation("refused-S2F15-changed-a-constant", eac=eac, before=before, after=after)
                return
            if valid and not other_format:
                self.violation("valid-S2F15-refused", eac=eac)
            return
        self.ctx.count("req.S2F15.accepted")
        if not valid:
            self.violation("invalid-S2F15-accepted", eac=eac)
            return
        last = {}
        for k, t in entries:
            last[k] = t
        for k, t in last.items():
            if t[0] == self.ec[k][0]:
                self.ecval[k] = t[1][0]
                if abs(after[k] - t[1][0]) > 1e-6:
                    self.violation("accepted-S2F15-not-applied", ident=k, value=after[k], sent=t[1][0])
                    return
            else:
                self.ecval[k] = after[k]   # other format: any in-bounds value; S2F13 must still answer (checked by later requests)
        if other_format:
            # S2F13 must still answer for the touched constants
            for k in last:
                t = self.reply_tree(self.request(2, 13, e5ref.encode(("L", [id_tree(rng, k)]))), 2, 14, "S2F13-after-S2F15")
                if t is None:
                    return
                if len(t[1]) == 1 and len(t[1][0][1]) == 1:
                    self.ecval[k] = t[1][0][1][0]

    def alarm_row(self, k):
        name, text, code = self.al[k]
        return [bytes([code | (0x80 if self.al_set[k] else 0)]), k, text]

    def do_s5f3(self, k=None, aled=None):
        rng = self.ctx.rng
        if k is None:
            k = rng.choice(list(self.al) + [77]) if rng.random() < 0.85 else 31337
        if aled is None:
            aled = rng.choice([0x80, 0x80, 0x80, 0x00])
        self.hist.append(f"S5F3(ALED={aled:#x}, {k})")
        t = self.reply_tree(self.request(5, 3, e5ref.encode(("L", [("B", bytes([aled])), id_tree(rng, k)]))), 5, 4, "S5F3")
        if t is None:
            return
        self.ctx.count("req.S5F3")
        self.kinds.add("S5F3")
        ack = plain(t)
        ack = ack[0] if isinstance(ack, bytes) and len(ack) == 1 else ack
        if k in self.al:
            if ack != 0:
                self.violation("S5F3-for-known-alarm-refused", ack=ack)
                return
            self.al_enabled[k] = aled == 0x80
            if self.h.alarms[k].enabled != self.al_enabled[k]:
                self.violation("S5F3-enable-state-not-applied", ident=k)
        elif ack == 0:
            self.violation("S5F3-for-unknown-alarm-accepted", ident=k)

    def do_s5f5(self):
        rng = self.ctx.rng
        ids = self.ids(list(self.al), [77]) if rng.random() < 0.15 else [rng.choice(list(self.al)) for _ in range(rng.choice([0, 1, 2, 3]))]
        self.hist.append(f"S5F5{ids}")
        body = e5ref.encode(("L", [id_tree(rng, i) for i in ids]))   # the catalogue defines S5F5 as a list of ALID items
        fr = self.request(5, 5, body)
        if fr is None:
            return
        self.ctx.count("req.S5F5")
        self.kinds.add("S5F5")
        if any(i not in self.al for i in ids):
            return   # undefined: any single reply
        t = self.reply_tree(fr, 5, 6, "S5F5")
        if t is None:
            return
        rows = plain(t)
        want = [self.alarm_row(k) for k in (ids or list(self.al))]
        if (sorted(map(repr, rows)) != sorted(map(repr, want))) if not ids else rows != want:
            self.violation("S5F6-differs", got=rows, want=want)

    def do_s5f7(self):
        self.hist.append("S5F7")
        t = self.reply_tree(self.request(5, 7, b""), 5, 8, "S5F7")
        if t is None:
            return
        self.ctx.count("req.S5F7")
        self.kinds.add("S5F7")
        rows = plain(t)
        want = [self.alarm_row(k) for k in self.al if self.al_enabled[k]]
        if sorted(map(repr, rows)) != sorted(map(repr, want)):
            self.violation("S5F8-differs-from-enabled-alarms", got=rows, want=want)

    def do_alarm_story(self):
        """A longer life of one alarm: enabled, disabled, set and cleared in any order (a report depends only on the change and
        on the enable state at that moment, not on what was reported before)."""
        rng = self.ctx.rng
        k = rng.choice(list(self.al))
        self.ctx.count("alarm.stories")
        for _ in range(rng.randint(6, 12)):
            if self.bad:
                return
            op = rng.choice(["enable", "disable", "set", "clear", "set", "clear"])
            if op in ("enable", "disable"):
                self.do_s5f3(k, 0x80 if op == "enable" else 0x00)
            else:
                self.do_alarm_change(k, op == "set")

    def do_alarm_change(self, k=None, to_set=None):
        rng = self.ctx.rng
        enabled = [a for a in self.al if self.al_enabled[a]]
        if k is None:
            k = rng.choice(enabled) if enabled and rng.random() < 0.6 else rng.choice(list(self.al))
        if to_set is None:
            to_set = (not self.al_set[k]) if rng.random() < 0.7 else rng.random() < 0.5
        self.hist.append(f"{'set' if to_set else 'clear'}_alarm({k})")
        n0 = len(self.rig.own_primaries)
        done = threading.Event()
        box = {}

        @stuck.harness_thread
        def run():
            try:
                (self.h.set_alarm if to_set else self.h.clear_alarm)(k)
            except Exception as exc:
                box["exc"] = repr(exc)
            done.set()
        threading.Thread(target=run, daemon=True).start()
        if not done.wait(5.0):
            self.violation("set-or-clear-alarm-did-not-return")
            return
        if "exc" in box:
            self.violation("set-or-clear-alarm-raises", error=box["exc"])
            return
        self.rig.quiesce(1.0)
        changed = self.al_set[k] != to_set
        expect = 1 if changed and self.al_enabled[k] else 0
        self.ctx.count("alarm.changes_with_report" if expect else "alarm.changes_without_report")
        reports = [f for _, f in self.rig.own_primaries[n0:] if (f.stream, f.function) == (5, 1)]
        if expect and not reports:
            self.rig.confirm_absent(lambda: any((f.stream, f.function) == (5, 1) for _, f in self.rig.own_primaries[n0:]))
            reports = [f for _, f in self.rig.own_primaries[n0:] if (f.stream, f.function) == (5, 1)]
        if len(reports) != expect:
            self.violation(f"S5F1-count-{len(reports)}-expected-{expect}", ident=k, changed=changed, enabled=self.al_enabled[k])
            return
        self.al_set[k] = to_set
        if expect:
            try:
                row = plain(e5ref.decode_all(reports[0].body))
            except Exception as exc:
                self.violation("S5F1-malformed", error=repr(exc))
                return
            if row != self.alarm_row(k):
                self.violation("S5F1-content-differs", got=row, want=self.alarm_row(k))

    def do_update(self):
        rng = self.ctx.rng
        self.sv[10] = ("U4", rng.randint(0, 2**32 - 1), "sv_ten", "mm")
        self.h.status_variables[10].value = self.sv[10][1]
        txt = "".join(rng.choice("abcXYZ 09") for _ in range(rng.randint(0, 10)))
        self.sv["sv_a"] = ("A", txt, "sv_text", "")
        self.h.status_variables["sv_a"].value = txt
        self.hist.append("update_values")

    def step(self):
        r = self.ctx.rng.random()
        for lim, fn in ((0.15, self.do_s1f3), (0.25, self.do_s1f11), (0.38, self.do_s2f13), (0.55, self.do_s2f15), (0.64, self.do_s2f29),
                        (0.74, self.do_s5f3), (0.82, self.do_s5f5), (0.88, self.do_s5f7), (0.94, self.do_alarm_change), (0.97, self.do_alarm_story),
                        (1.01, self.do_update)):
            if r < lim:
                fn()
                return


def run(ctx):
    vtime.install()
    n = 22 if ctx.quick else 160
    length = 25 if ctx.quick else 80
    for i in range(n):
        run_ = Run(ctx)
        if not run_.ok:
            ctx.unsure("precondition failed: the handler did not reach COMMUNICATING with a cooperative peer (C07/C20 judge that)")
            run_.rig.shutdown()
            continue
        for _ in range(ctx.rng.randint(8, length)):
            if run_.bad:
                break
            run_.step()
        ctx.case(("hist", tuple(run_.hist)), nontrivial=len(run_.kinds) >= 3)
        if i < 2:
            ctx.sample({"history": run_.hist[:10]})
        run_.rig.shutdown()
