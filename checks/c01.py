"""C01 - SECS-II values round-trip and are encoded exactly as SEMI E5 prescribes (variables API).

Monitor: for every generated typed value that the real class accepts, the bytes of encode() are compared with
an independent E5 encoder, decode() is run on prefix+bytes+suffix into a fresh object and into an object that
already holds another value, and position / get() / re-encode are compared with the reference.
"""

from __future__ import annotations

import struct

from lib import e5ref, gen, sv

PROPERTY = "C01"
LEVEL = "exploration"
RULE = ("typed E5 trees from seeded boundary-biased generators (all leaf types x constructor input forms x element "
        "counts incl. length-byte boundaries, homogeneous arrays, keyed records, ANYVALUE nestings, every catalogued "
        "data item x every allowed type); a case is distinct by (class, input form, canonical reference bytes) and "
        "non-trivial when the class accepted the value so that all four oracles ran; plus: variables built from a list that the caller changes afterwards; Dynamic without a type list as holder of any item; plain 1 / 1.0 / True (0 / 0.0 / False) one after the other into the same Dynamic type list")
ASSUMPTIONS = ["the reference codec lib/e5ref.py implements SEMI E5 section 9 item encoding correctly",
               "values the class rejects at construction are outside the property (counted, not judged)"]
LEVEL_TEXT = ("Differential runtime monitoring: the real variable classes encode/decode tens of thousands of generated "
              "values and every byte, position and read-back value is compared with an independent E5 codec. Sampled, "
              "with the single-byte, empty-item, integer-boundary and length-byte-boundary sub-spaces enumerated.")
LEVEL_NOTE = "Trusts lib/e5ref.py as the E5 reference; says nothing about values the generators never produce."
TECHNIQUE = "runtime differential oracle (reference codec) over generated inputs"
SHARDS = {"quick": 8, "thorough": 16}
TIMEOUT = {"quick": 240, "thorough": 3000}
FLOORS = {"oracle.equal_values_of_other_kinds": 500, "oracle.set_twice": 300, "accepted.dynamic-all-types": 1000, "oracle.encode": 2000, "oracle.decode_fresh": 2000, "oracle.decode_reused": 1000, "oracle.get": 2000,
          "exhaustive.single_byte": 3 * 256, "dataitem.cases": 300, "boundary.len_256": 10, "boundary.len_65536": 1}


def _check_obj(ctx, kind, make, tree, form, expected=None, reuse_with=None):
    """Run the four oracles on one constructed object. `make()` builds a new object holding the value."""
    ref = e5ref.encode(tree)
    fmt = tree[0]
    try:
        obj = make()
    except Exception as exc:  # rejected at construction: not judged
        ctx.count(f"rejected.{kind}")
        ctx.case((kind, form, "rejected", ref[:64], len(ref)), nontrivial=False)
        return None
    ctx.case((kind, form, ref if len(ref) < 4096 else (ref[:64], len(ref), hash(ref))))
    ctx.count(f"accepted.{kind}")
    wit = {"kind": kind, "form": form, "tree": gen.describe(tree), "reference": ref[:80]}
    # 1 encode
    try:
        enc = obj.encode()
    except Exception as exc:
        ctx.violation(f"encode-raises:{kind}:{fmt}:{type(exc).__name__}", {**wit, "error": repr(exc)[:200]})
        return obj
    ctx.count("oracle.encode")
    if enc != ref:
        ctx.violation(f"encode-mismatch:{kind}:{fmt}", {**wit, "encoded": enc[:80], "len_enc": len(enc), "len_ref": len(ref)})
        return obj
    if expected is None:
        expected = sv.expected_get(tree)
    # value held by the constructed object itself
    try:
        got = obj.get()
        ctx.count("oracle.get")
        # the constructed object may still hold the unrounded double given to F4: compare after binary32 rounding
        if not sv.same_value(got, expected, f4=True):
            ctx.violation(f"get-mismatch-constructed:{kind}:{fmt}", {**wit, "got": got, "expected": expected})
    except Exception as exc:
        ctx.violation(f"get-raises:{kind}:{fmt}:{type(exc).__name__}", {**wit, "error": repr(exc)[:200]})
    # 2 decode into a fresh object, inside a larger buffer
    rng = ctx.rng
    prefix = bytes(rng.getrandbits(8) for _ in range(rng.choice([0, 0, 1, 3, 7])))
    suffix = bytes(rng.getrandbits(8) for _ in range(rng.choice([0, 0, 1, 5])))
    buf = prefix + enc + suffix
    targets = [("fresh", reuse_with[0]() if reuse_with else None)]
    if reuse_with and reuse_with[1] is not None:
        try:
            targets.append(("reused", reuse_with[1]()))
        except Exception:  # the unrelated pre-existing value was itself not accepted: no reuse target
            ctx.count("reuse_target_rejected")
    for label, target in targets:
        if target is None:
            continue
        try:
            pos = target.decode(buf, len(prefix))
        except Exception as exc:
            ctx.violation(f"decode-raises:{kind}:{fmt}:{label}:{type(exc).__name__}", {**wit, "error": repr(exc)[:200]})
            continue
        ctx.count(f"oracle.decode_{label}")
        if pos != len(prefix) + len(enc):
            ctx.violation(f"decode-position:{kind}:{fmt}:{label}", {**wit, "pos": pos, "want": len(prefix) + len(enc)})
        try:
            got = target.get()
            if not sv.same_value(got, expected):
                ctx.violation(f"get-mismatch:{kind}:{fmt}:{label}", {**wit, "got": got, "expected": expected})
            again = target.encode()
            if again != ref:
                ctx.violation(f"reencode-mismatch:{kind}:{fmt}:{label}", {**wit, "encoded": again[:80]})
        except Exception as exc:
            ctx.violation(f"get-raises:{kind}:{fmt}:{label}:{type(exc).__name__}", {**wit, "error": repr(exc)[:200]})
    return obj


def _leaf_case(ctx, tree, form=None, count=-1):
    fmt = tree[0]
    cls = sv.VCLS[fmt]
    inp, form = sv.leaf_input(tree, ctx.rng, form)
    other = gen.leaf(ctx.rng, fmt, n=ctx.rng.choice([1, 2, 3, 5]))
    oinp, _ = sv.leaf_input(other)

    def make():
        return cls(inp) if count < 0 else cls(inp, count=count)

    def fresh():
        return cls() if count < 0 else cls(count=count)

    def reused():
        return cls(oinp)

    _check_obj(ctx, f"typed", make, tree, f"{fmt}/{form}", reuse_with=(fresh, reused))


def _integer_range_ends(ctx):
    """Enumerated: for every integer type the last value inside its range and the first one outside, at both ends, given to the
    type itself and to a Dynamic restricted to it. Whatever is accepted encodes and reads back as that value."""
    V = sv.V
    for fmt in e5ref.INT_FMTS:
        bits = int(fmt[1:]) * 8
        lo, hi = (0, 2**bits - 1) if fmt[0] == "U" else (-(2**(bits - 1)), 2**(bits - 1) - 1)
        for v in (lo - 1, lo, lo + 1, hi - 1, hi, hi + 1):
            for holder, make in (("typed", lambda: sv.VCLS[fmt](v)), ("dynamic", lambda: V.Dynamic([sv.VCLS[fmt]], v)),
                                 ("typed-list", lambda: sv.VCLS[fmt]([0, v]))):
                ctx.count("enumerated.integer_range_ends")
                ctx.case(("range-end", fmt, v, holder))
                wit = {"type": fmt, "value": v, "holder": holder, "in_range": lo <= v <= hi}
                try:
                    obj = make()
                except Exception:
                    if lo <= v <= hi:
                        ctx.violation(f"value-inside-the-range-rejected:{fmt}", wit)
                    continue
                try:
                    enc = obj.encode()
                    fresh = sv.VCLS[fmt]()
                    fresh.decode(enc)
                    back = fresh.get()
                except Exception as exc:
                    ctx.violation(f"accepted-value-does-not-encode:{fmt}:{type(exc).__name__}", {**wit, "error": repr(exc)[:160]})
                    continue
                want = [0, v] if holder == "typed-list" else v
                if back != want:
                    ctx.violation(f"accepted-value-reads-back-differently:{fmt}", {**wit, "read_back": back})
    ctx.exhaustive["integer_range_ends"] = True


def _accepted_float_cases(ctx, n):
    """Floats given as arbitrary Python doubles to F4 (the class rounds to binary32 on the wire)."""
    rng = ctx.rng
    V = sv.V
    specials = [0.1, 1e-45, 1.4e-45, 3.40282e38, -3.40282e38, 3.4028234e38, 3.4028235e38, 3.40282346e38, 1.17549435e-38,
                16777217.0, 3.402823e38, 3.4028e38, 1e38, -1e38, 65504.0, 2.0**127, 2.0**-149, 2.0**-150]
    for i in range(n):
        x = rng.choice(specials) if rng.random() < 0.5 else gen.finite_f8(rng)
        try:
            x32 = e5ref.f32(x)
        except OverflowError:
            x32 = None
        k = rng.choice([1, 1, 2, 3])
        vals = [x] + [gen.finite_f4(rng) for _ in range(k - 1)]
        try:
            obj = V.F4(vals if k > 1 else x)
        except Exception:
            ctx.count("rejected.f4_double")
            ctx.case(("f4_double", "rejected", struct.pack(">d", x)), nontrivial=False)
            continue
        ctx.count("accepted.f4_double")
        if x32 is None or x32 in (float("inf"), float("-inf")):
            # accepted but has no binary32 representation: encode must not silently produce something else
            try:
                enc = obj.encode()
                ctx.violation("f4-accepted-unrepresentable", {"value": repr(x), "encoded": enc})
            except Exception:
                ctx.violation("f4-accepted-unrepresentable", {"value": repr(x), "encode": "raises"})
            continue
        tree = ("F4", [x32] + vals[1:])
        _check_obj(ctx, "typed", lambda: V.F4(vals if k > 1 else x), tree, "F4/double", reuse_with=(V.F4, lambda: V.F4([1.0, 2.0])))
    # F8 edge values
    for x in [1.79769e308, -1.79769e308, e5ref.DBL_MAX, -e5ref.DBL_MAX, 5e-324, 2.2250738585072014e-308, 0.1, -0.0]:
        _check_obj(ctx, "typed", lambda: V.F8(x), ("F8", [x]), "F8/edge", reuse_with=(V.F8, lambda: V.F8([1.0, 2.0])))
    for bits in gen.F4_SPECIAL_BITS:
        x = gen.f4_from_bits(bits)
        _check_obj(ctx, "typed", lambda: V.F4(x), ("F4", [x]), "F4/edge", reuse_with=(V.F4, lambda: V.F4([1.0, 2.0])))
    for fmt in ("F4", "F8"):  # NaN is accepted by the class (comparisons are false): must survive bit-exactly
        x = float("nan")
        _check_obj(ctx, "typed", lambda: sv.VCLS[fmt](x), (fmt, [x]), fmt + "/nan",
                   reuse_with=(sv.VCLS[fmt], lambda: sv.VCLS[fmt]([1.0, 2.0])))


def _array_case(ctx):
    """Homogeneous Array(<type>) of leaf values."""
    rng = ctx.rng
    V = sv.V
    fmt = rng.choice(gen.LEAF_FMTS)
    n = rng.choice([0, 1, 2, 3, 5, 17])
    kids = [gen.leaf(rng, fmt) for _ in range(n)]
    inputs = [sv.leaf_input(k, rng)[0] for k in kids]
    tree = ("L", kids)
    cls = sv.item_class(fmt)
    other = [sv.leaf_input(gen.leaf(rng, fmt, n=2))[0] for _ in range(3)]
    _check_obj(ctx, "array", lambda: V.Array(cls, inputs), tree, f"Array({fmt})",
               reuse_with=(lambda: V.Array(cls), lambda: V.Array(cls, other)))
    # array of arrays
    if rng.random() < 0.4:
        outer = [[sv.leaf_input(gen.leaf(rng, fmt), rng) for _ in range(rng.randint(0, 3))] for _ in range(rng.randint(0, 4))]
        kids2 = []
        rows = []
        for _ in range(rng.randint(0, 4)):
            row = [gen.leaf(rng, fmt) for _ in range(rng.randint(0, 3))]
            kids2.append(("L", row))
            rows.append([sv.leaf_input(k, rng)[0] for k in row])
        _check_obj(ctx, "array", lambda: V.Array([cls], rows), ("L", kids2), f"Array([{fmt}])",
                   reuse_with=(lambda: V.Array([cls]), lambda: V.Array([cls], [[other[0]], []])))


def _record_case(ctx):
    """Keyed record List([...]) with fixed-type user data items, nested named record and open array."""
    rng = ctx.rng
    V = sv.V
    fmts = [rng.choice(gen.LEAF_FMTS) for _ in range(rng.randint(2, 5))]
    fmts = list(dict.fromkeys(fmts))
    if len(fmts) < 2:
        fmts = ["U4", "A"]
    arr_fmt = rng.choice(gen.LEAF_FMTS)
    sub_fmts = list(dict.fromkeys(rng.choice(gen.LEAF_FMTS) for _ in range(3)))
    if len(sub_fmts) < 2:
        sub_fmts = ["B", "F8"]
    data_format = [sv.item_class(f) for f in fmts]
    layout = [("item", f) for f in fmts]
    with_arr = rng.random() < 0.6 and arr_fmt not in fmts
    with_sub = rng.random() < 0.6
    if with_arr:
        data_format.append([sv.item_class(arr_fmt)])
        layout.append(("array", arr_fmt))
    if with_sub:
        data_format.append(["SUB"] + [sv.item_class(f) for f in sub_fmts])
        layout.append(("sub", sub_fmts))
    kids, as_list, as_dict, exp = [], [], {}, {}
    for kind, f in layout:
        if kind == "item":
            k = gen.leaf(rng, f)
            v = sv.leaf_input(k, rng)[0]
            name = sv.item_class(f).__name__
            e = sv.expected_get(k)
        elif kind == "array":
            ks = [gen.leaf(rng, f) for _ in range(rng.randint(0, 4))]
            k = ("L", ks)
            v = [sv.leaf_input(x, rng)[0] for x in ks]
            name = sv.item_class(f).__name__
            e = [sv.expected_get(x) for x in ks]
        else:
            ks = [gen.leaf(rng, x) for x in f]
            k = ("L", ks)
            v = {sv.item_class(x).__name__: sv.leaf_input(y, rng)[0] for x, y in zip(f, ks)}
            name = "SUB"
            e = {sv.item_class(x).__name__: sv.expected_get(y) for x, y in zip(f, ks)}
        kids.append(k)
        as_list.append(v if kind != "sub" else list(v.values()))
        as_dict[name] = v
        exp[name] = e
    tree = ("L", kids)
    use_dict = rng.random() < 0.5
    value = as_dict if use_dict else as_list
    _check_obj(ctx, "record", lambda: V.List(data_format, value), tree, "List/" + ("dict" if use_dict else "list"),
               expected=exp, reuse_with=(lambda: V.List(data_format), lambda: V.List(data_format, value)))


def _has_fmt_below(tree, fmt):
    return tree[0] == "L" and any(k[0] == fmt or _has_fmt_below(k, fmt) for k in tree[1])


def _anyvalue_case(ctx, depth):
    rng = ctx.rng
    V = sv.V
    tree = gen.tree(rng, depth=depth, width=4)
    other = gen.tree(rng, depth=2, width=3)
    _check_obj(ctx, "anyvalue", lambda: sv.ANYVALUE(sv.to_variable(tree, rng)), tree, f"ANYVALUE/depth{gen.depth_of(tree)}",
               reuse_with=(sv.ANYVALUE, lambda: sv.ANYVALUE(sv.to_variable(other))))
    ctx.maximum("nesting_depth", gen.depth_of(tree))
    # Dynamic without a type list ("all types"): holds, encodes and decodes any item, lists and JIS-8 text included
    # (elements of a list are read as ANYVALUE, whose definition has no JIS-8: no J below the top level)
    if tree[0] != "L" or not _has_fmt_below(tree, "J"):
        _check_obj(ctx, "dynamic-all-types", lambda: V.Dynamic([], sv.to_variable(tree, rng)), tree, f"Dynamic[]/{tree[0]}",
                   reuse_with=(lambda: V.Dynamic([]), None))
    # Dynamic restricted to a type set, fed a typed wrapper and a plain value
    if tree[0] != "L":
        fmt = tree[0]
        types = [sv.VCLS[fmt]] + [sv.VCLS[f] for f in rng.sample(gen.LEAF_FMTS, 2) if f != fmt]
        rng.shuffle(types)
        _check_obj(ctx, "dynamic", lambda: V.Dynamic(types, sv.to_variable(tree, rng)), tree, f"Dynamic/{fmt}/wrapped",
                   reuse_with=(lambda: V.Dynamic(types), None))


def _plain_dynamic_case(ctx):
    """Plain Python values handed to Dynamic: whatever concrete type it picks must encode E5-exactly for that type."""
    rng = ctx.rng
    V = sv.V
    types = [sv.VCLS[f] for f in rng.sample(gen.LEAF_FMTS, rng.randint(1, 5))]
    kind = rng.choice(["int", "ints", "float", "str", "bytes", "bool"])
    if kind == "int":
        fmt = rng.choice(e5ref.INT_FMTS)
        val = gen.number(rng, fmt)
    elif kind == "ints":
        fmt = rng.choice(e5ref.INT_FMTS)
        val = [gen.number(rng, fmt) for _ in range(rng.randint(0, 4))]
    elif kind == "float":
        val = gen.finite_f4(rng)
    elif kind == "str":
        val = gen.text_bytes(rng, rng.randint(0, 6), "A").decode("latin-1")
    elif kind == "bytes":
        val = bytes(rng.getrandbits(8) for _ in range(rng.randint(0, 6)))
    else:
        val = rng.random() < 0.5
    try:
        obj = V.Dynamic(types, val)
    except Exception:
        ctx.count("rejected.dynamic_plain")
        ctx.case(("dynplain", repr(val), [t.__name__ for t in types]), nontrivial=False)
        return
    ctx.count("accepted.dynamic_plain")
    ctx.case(("dynplain", repr(val), [t.__name__ for t in types]))
    try:
        enc = obj.encode()
        ref_tree = e5ref.decode_all(enc)  # must be one valid E5 item ...
        ctx.count("oracle.encode")
        chosen = type(obj.value)
        if chosen not in types:
            ctx.violation("dynamic-plain-type-outside-allowed", {"value": repr(val), "chosen": chosen.__name__})
        if e5ref.encode(ref_tree) != enc:
            ctx.violation("dynamic-plain-noncanonical", {"value": repr(val), "encoded": enc})
        # ... denoting the given value in the chosen type
        fresh = V.Dynamic(types)
        pos = fresh.decode(enc)
        ctx.count("oracle.decode_fresh")
        if pos != len(enc) or fresh.encode() != enc or not sv.same_value(fresh.get(), obj.get(), f4=True):
            ctx.violation("dynamic-plain-roundtrip", {"value": repr(val), "encoded": enc, "got": fresh.get()})
        fmt = ref_tree[0]
        if fmt in e5ref.INT_FMTS and kind in ("int", "ints"):
            want = [val] if kind == "int" else list(val)
            if list(ref_tree[1]) != want:
                ctx.violation("dynamic-plain-value-changed", {"value": repr(val), "encoded": enc})
    except Exception as exc:
        ctx.violation(f"dynamic-plain-raises:{type(exc).__name__}", {"value": repr(val), "types": [t.__name__ for t in types],
                                                                      "error": repr(exc)[:200]})


def _equal_values_of_other_kinds(ctx):
    """Plain values that compare equal in Python but are of different kinds (1, 1.0, True; 0, 0.0, False), one after the other
    and in any order, into Dynamic items whose type list has a type for each kind: each one is held, read back and sent as its
    own kind, whatever was handled before."""
    rng = ctx.rng
    V = sv.V
    ifmt, ffmt = rng.choice(e5ref.INT_FMTS), rng.choice(["F4", "F8"])
    types = [sv.VCLS[ifmt], sv.VCLS[ffmt], sv.VCLS["BOOLEAN"]] + [sv.VCLS[f] for f in rng.sample(["A", "B"], rng.randint(0, 2))]
    rng.shuffle(types)
    if rng.random() < 0.3:
        types = []          # "all types"
    k = rng.choice([0, 1])
    values = [k, float(k), bool(k)]
    rng.shuffle(values)
    for val in values + [rng.choice(values)]:
        ctx.count("oracle.equal_values_of_other_kinds")
        wit = {"value": repr(val), "types": [t.__name__ for t in types], "order": [repr(v) for v in values]}
        try:
            obj = V.Dynamic(types, val)
            got = obj.get()
            fresh = V.Dynamic(types)
            fresh.decode(obj.encode())
            back = fresh.get()
        except Exception as exc:
            ctx.violation(f"dynamic-plain-raises:{type(exc).__name__}", {**wit, "error": repr(exc)[:200]})
            return
        # a Python bool is an int as well: it is held as a boolean when Boolean stands before every integer type of the list
        # (the list order decides, like everywhere in Dynamic), otherwise as that integer
        want = val
        if isinstance(val, bool) and types:
            names = [t.__name__ for t in types]
            first_int = min((names.index(n) for n in names if n[0] in "UI" and n[1:].isdigit()), default=len(names))
            if names.index("Boolean") > first_int:
                want = int(val)
        for label, x in (("held", got), ("decoded", back)):
            if type(x) is not type(want) or x != want:
                ctx.violation(f"dynamic-plain-value-comes-back-as-another-kind:{type(val).__name__}-as-{type(x).__name__}",
                              {**wit, "where": label, "got": repr(x)})
                return


def _set_twice(ctx):
    """A Dynamic item (or a data item built on it) that is given a second plain value of another kind: what it then holds and
    sends is what a fresh object given that value holds and sends - the type is chosen by the value, not by the history."""
    rng = ctx.rng
    V = sv.V
    pool = [7, 0, 200, -3, 70000, 2 ** 40, "IDLE", "7", "12", "NO", "", "1", True, False, 1.5, -0.0, b"\x01\x02", b"7", [1, 2, 3], [7], ["a", "b"]]
    which = rng.random()
    if which < 0.5:
        names = rng.sample(["A", "B", "BOOLEAN", "U1", "U2", "U4", "U8", "I1", "I2", "I4", "I8", "F4", "F8"], rng.randint(2, 6))
        types = [sv.VCLS[n] for n in names]
        make = lambda *a: V.Dynamic(types, *a)
        label = "Dynamic[" + ",".join(names) + "]"
    elif which < 0.65:
        make = lambda *a: V.Dynamic([], *a)
        label = "Dynamic[]"
    else:
        from secsgem.secs import data_items as DI
        cls = getattr(DI, rng.choice(["SV", "V", "CPVAL", "CEID", "ECV", "RPTID", "VID", "ALID", "DATAID", "MID", "CPNAME", "DVVAL"]))
        make = lambda *a: cls(*a)
        label = cls.__name__
    v1, v2 = rng.sample(pool, 2)
    try:
        fresh = make(v2)
        want_bytes, want_val = fresh.encode(), fresh.get()
    except Exception:
        ctx.count("set_twice.second_value_not_accepted_by_a_fresh_object")
        return
    try:
        obj = make(v1)
        obj.encode()
    except Exception:
        ctx.count("set_twice.first_value_not_accepted")
        return
    ctx.count("oracle.set_twice")
    ctx.case(("set-twice", label, repr(v1), repr(v2)), nontrivial=type(v1) is not type(v2))
    wit = {"item": label, "first": repr(v1), "second": repr(v2), "fresh_object_sends": want_bytes}
    try:
        obj.set(v2)
        got_bytes, got_val = obj.encode(), obj.get()
    except Exception as exc:
        ctx.violation(f"second-value-refused-by-a-used-object:{type(exc).__name__}", {**wit, "error": repr(exc)[:200]})
        return
    if got_bytes != want_bytes or type(got_val) is not type(want_val) or not sv.same_value(got_val, want_val, f4=True):
        ctx.violation("value-set-on-a-used-object-is-sent-differently-than-on-a-fresh-one", {**wit, "used_object_sends": got_bytes, "used_object_holds": repr(got_val)[:80], "fresh_object_holds": repr(want_val)[:80]})


def _dataitem_cases(ctx):
    """Every catalogued data item class x every allowed type: value within its length limit."""
    import inspect

    from secsgem.secs import data_items as DI

    V = sv.V
    rng = ctx.rng
    rev = {cls: fmt for fmt, cls in sv.VCLS.items()}
    classes = sorted((c for _, c in inspect.getmembers(DI, inspect.isclass)
                      if issubclass(c, DI.DataItemBase) and c is not DI.DataItemBase), key=lambda c: c.__name__)
    ctx.note("data_item_classes", len(classes))
    idx = 0
    for cls in classes:
        typ = cls.__type__
        allowed = cls.__allowedtypes__ if typ is V.Dynamic else [typ]
        limit = cls.__count__
        for t in allowed:
            if t is V.Array:
                idx += 1
                if not ctx.mine(idx):
                    continue
                kids = [gen.leaf(rng, rng.choice(["U4", "A"])) for _ in range(rng.randint(0, 3))]
                tree = ("L", kids)
                _check_obj(ctx, "dataitem", lambda: cls(V.Array(sv.ANYVALUE, [sv.to_variable(k) for k in kids])), tree,
                           f"{cls.__name__}/L", reuse_with=(cls, None))
                ctx.count("dataitem.cases")
                continue
            fmt = rev.get(t)
            if fmt is None:
                continue
            lens = [0, 1, 2, 7] if limit <= 0 else sorted({0, 1, max(0, limit - 1), limit})
            for n in lens:
                idx += 1
                if not ctx.mine(idx):
                    continue
                tree = gen.leaf(rng, fmt, n=n)
                wrapped = typ is V.Dynamic

                def make(tree=tree, fmt=fmt, wrapped=wrapped):
                    inp = sv.leaf_input(tree)[0]
                    return cls(sv.VCLS[fmt](inp)) if wrapped else cls(inp)

                _check_obj(ctx, "dataitem", make, tree, f"{cls.__name__}/{fmt}/n{n}", reuse_with=(cls, None))
                ctx.count("dataitem.cases")


def _big_cases(ctx):
    """Element counts at the 1/2/3 length-byte boundaries."""
    rng = ctx.rng
    jobs = []
    for fmt in gen.LEAF_FMTS:
        size = e5ref.NUM[fmt][1] if fmt in e5ref.NUM else 1
        counts = {254, 255, 256, 257}
        if size > 1:  # byte length crosses 255/256 and 65535/65536
            counts.update({255 // size, 255 // size + 1, 65535 // size, 65535 // size + 1})
        counts.update({65534, 65535, 65536, 65537} if size == 1 or not ctx.quick else set())
        if size == 1 and ctx.quick:
            counts.update({65535, 65536})
        for n in sorted(counts):
            jobs.append((fmt, n))
    jobs += [("L", 255), ("L", 256), ("L", 257), ("L", 65535), ("L", 65536)]
    if not ctx.quick:
        jobs += [("B", 16777215), ("A", 16777215), ("B", 16777214), ("L", 70000)]
    for i, (fmt, n) in enumerate(jobs):
        if not ctx.mine(i):
            continue
        if fmt == "L":
            kid = ("U1", [7])
            tree = ("L", [kid] * n)
            cls = sv.item_class("U1")
            _check_obj(ctx, "array", lambda: sv.V.Array(cls, [7] * n), tree, f"Array(U1)x{n}",
                       reuse_with=(lambda: sv.V.Array(cls), None))
        else:
            if n > 100000:
                blob = rng.randbytes(n) if fmt == "B" else bytes(b & 0x7F for b in rng.randbytes(n))
                tree = (fmt, blob)
            else:
                tree = gen.leaf(rng, fmt, n=n)
            _leaf_case(ctx, tree, form={"B": "bytes", "A": "str", "J": "str"}.get(fmt, "list"))
        blen = len(e5ref.payload(tree)) if fmt != "L" else n
        for b in (255, 256, 65535, 65536, 16777215):
            if blen == b:
                ctx.count(f"boundary.len_{b}")


def _exhaustive_single_bytes(ctx):
    for fmt in ("A", "J", "B"):
        for b in range(256):
            if fmt == "J" and b not in e5ref.JIS8:
                ctx.count("exhaustive.single_byte")  # unassigned in JIS X 0201: no denotation to check
                continue
            tree = (fmt, bytes([b]))
            for form in (("bytes", "str") if fmt != "B" else ("bytes", "int")):
                if fmt == "A" and form == "str" and b > 0x7F:
                    pass  # latin-1 text is accepted by String; the wire byte must be b
                _leaf_case(ctx, tree, form=form)
            ctx.count("exhaustive.single_byte")
        # all 256 in one item too
        allb = bytes(b for b in range(256) if fmt != "J" or b in e5ref.JIS8)
        _leaf_case(ctx, (fmt, allb), form="bytes")
    ctx.exhaustive["single_byte_text_and_binary"] = True


def _empty_items(ctx):
    """Zero-length item of every leaf type, decoded into objects that already hold something."""
    for fmt in gen.LEAF_FMTS:
        for form in ("list", "bytes", "str", "tuple", "bytearray"):
            _leaf_case(ctx, (fmt, b"" if fmt in ("A", "J", "B") else []), form=form)
            ctx.count("exhaustive.empty_items")
    ctx.exhaustive["empty_item_per_type"] = True


def _int_boundary_exhaustive(ctx):
    for fmt in e5ref.INT_FMTS:
        for v in gen.int_boundaries(fmt):
            _leaf_case(ctx, (fmt, [v]), form="scalar")
            ctx.count("exhaustive.int_boundaries")
        _leaf_case(ctx, (fmt, gen.int_boundaries(fmt)), form="list")
    ctx.exhaustive["integer_boundaries_per_width"] = True


def _aliasing(ctx, n):
    """A variable built from a list holds that value: the caller changing his list afterwards must not change the variable."""
    rng = ctx.rng
    for _ in range(n):
        fmt = rng.choice([f for f in gen.LEAF_FMTS if f not in ("A", "J", "B")])
        leaf = gen.leaf(rng, fmt, n=rng.choice([2, 3, 5]))
        ref = e5ref.encode(leaf)
        src = [bool(v) for v in leaf[1]] if fmt == "BOOLEAN" else list(leaf[1])
        try:
            obj = sv.VCLS[fmt](src)
        except Exception:
            continue
        ctx.count("oracle.construct_then_caller_changes_his_list")
        ctx.case(("alias", fmt, ref))
        try:
            src.append(src[0])
            src[0] = src[1]
            del src[1]
            enc = obj.encode()
        except Exception as exc:
            ctx.violation(f"variable-aliases-the-callers-list:{fmt}:{type(exc).__name__}", {"tree": gen.describe(leaf), "error": repr(exc)[:200]})
            continue
        if enc != ref:
            ctx.violation(f"variable-aliases-the-callers-list:{fmt}", {"tree": gen.describe(leaf), "encoded_after_the_list_was_changed": enc[:60], "reference": ref[:60]})
    # lists of variables
    for _ in range(n // 4):
        kids = [gen.leaf(rng, rng.choice(["U1", "A", "I2"]), n=1) for _ in range(3)]
        tree = ("L", kids)
        ref = e5ref.encode(tree)
        src = [sv.to_variable(k) for k in kids]
        try:
            obj = sv.V.Array(sv.ANYVALUE, src)
            src.reverse()
            src.pop()
            enc = obj.encode()
        except Exception as exc:
            ctx.violation(f"variable-aliases-the-callers-list:L:{type(exc).__name__}", {"tree": gen.describe(tree), "error": repr(exc)[:200]})
            continue
        ctx.count("oracle.construct_then_caller_changes_his_list")
        if enc != ref:
            ctx.violation("variable-aliases-the-callers-list:L", {"tree": gen.describe(tree), "encoded_after_the_list_was_changed": enc[:60], "reference": ref[:60]})


def run(ctx):
    n = 6000 if ctx.quick else 350000
    _aliasing(ctx, 200 if ctx.quick else 20000)
    if ctx.shard == 0:
        _exhaustive_single_bytes(ctx)
    if ctx.shard == 1 % ctx.nshards:
        _int_boundary_exhaustive(ctx)
        _empty_items(ctx)
    _dataitem_cases(ctx)
    _big_cases(ctx)
    if ctx.shard == 0:
        _integer_range_ends(ctx)
    _accepted_float_cases(ctx, n // 10)
    rng = ctx.rng
    for i in range(n):
        r = i % 10
        if r < 4:
            tree = gen.leaf(rng, big=True)
            count = -1
            if rng.random() < 0.15:
                count = len(e5ref.payload(tree)) if tree[0] in ("A", "J", "B") else len(tree[1])
                count += rng.choice([0, 0, 1, 5])
            _leaf_case(ctx, tree, count=count)
            if i < 3:
                ctx.sample({"class": tree[0], "tree": gen.describe(tree), "reference_bytes": e5ref.encode(tree)[:40]})
        elif r < 5:
            _array_case(ctx)
        elif r < 7:
            _record_case(ctx)
        elif r < 9:
            _anyvalue_case(ctx, depth=6 if i % 50 == 7 else 3)
        else:
            _plain_dynamic_case(ctx)
            if i % 40 == 9:
                _equal_values_of_other_kinds(ctx)
            if i % 20 == 19:
                for _ in range(4):
                    _set_twice(ctx)
