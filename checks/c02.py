"""C02 - every valid SEMI E5 item encoding is decoded to the value it denotes (variables API).

Inputs are produced by the independent reference encoder (never by secsgem): forced non-minimal length bytes at
every nesting level, every format code, finite float bit patterns, and byte-level mutants of valid encodings that
the strict reference decoder still accepts.  The real decoders must not raise, must consume exactly the item,
must report the reference value and must re-encode canonically.
"""

from __future__ import annotations

import inspect
import math

from lib import e5ref, gen, sv

PROPERTY = "C02"
LEVEL = "exploration"
RULE = ("valid E5 byte strings from the reference encoder with a seeded choice of 1-3 length bytes per item (all legal "
        "choices enumerated for every format code), random nestings, finite float bit patterns and reference-accepted "
        "byte mutants; fed to ANYVALUE, Dynamic(types), the typed classes and every catalogued data item for each of "
        "its allowed formats and to Dynamic([]) (all types), each also decoded into an object that already holds another value; distinct by (target, input bytes); non-trivial when it has a non-minimal length field, "
        "a nesting or >1 element; plus: the same bytes decoded into an object whose value was set with an explicitly typed variable (own element type / length limit); every fourth ANYVALUE input also through the item API reader; items of 13-1000 elements in every leaf format (around every power of two; random, all zero, zero at every other position)")
ASSUMPTIONS = ["lib/e5ref.py strict decoder defines which byte strings are valid E5 items and what they denote",
               "format codes the library does not claim to support (2-byte characters 0o22) and non-finite floats are excluded",
               "for A items bytes >= 0x80 only byte-level round-trip is demanded"]
LEVEL_TEXT = ("Differential runtime monitoring of the real decoders against an independent strict E5 decoder on byte "
              "strings secsgem did not produce; (format code x length-byte count) pairs and (data item x allowed "
              "format) pairs are enumerated, payloads and nestings are sampled.")
LEVEL_NOTE = "Trusts lib/e5ref.py; sampled payloads; inputs outside the generators are not covered."
TECHNIQUE = "runtime differential oracle (reference decoder) over foreign valid encodings and accepted mutants"
SHARDS = {"quick": 8, "thorough": 16}
TIMEOUT = {"quick": 240, "thorough": 3000}
FLOORS = {"oracle.decode_into_used_object": 1000, "oracle.anyvalue": 2000, "oracle.typed": 1000, "oracle.dataitem": 300, "nonminimal.inputs": 1000,
          "enumerated.code_x_lenbytes": 14 * 3, "mutants.accepted_by_reference": 50, "long_items": 200}

ANY_FMTS = [f for f in gen.LEAF_FMTS if f != "J"]


def _finite(tree):
    fmt, val = tree
    if fmt == "L":
        return all(_finite(c) for c in val)
    if fmt in ("F4", "F8"):
        return all(math.isfinite(v) for v in val)
    return True


def _has_fmt(tree, fmt):
    if tree[0] == fmt:
        return True
    return tree[0] == "L" and any(_has_fmt(c, fmt) for c in tree[1])


def _canon(tree):
    """Canonical tree: BOOLEAN payload normalised to 0/1."""
    fmt, val = tree
    if fmt == "L":
        return ("L", [_canon(c) for c in val])
    if fmt == "BOOLEAN":
        return ("BOOLEAN", [bool(v) for v in (val if not isinstance(val, (bytes, bytearray)) else list(val))])
    return tree


def _tree_no_j(rng, depth, width):
    while True:
        t = gen.tree(rng, depth, width, big=False)
        if not _has_fmt(t, "J"):
            return t


def _random_lenbytes(rng, p=0.5):
    def choose(path, need):
        if rng.random() < p:
            return rng.randint(need, 3)
        return need
    return choose


def _judge_item_api(ctx, data, tree):
    """The library's second reader of E5 bytes (`secsgem.secs.Item.decode`, judged in depth by C14): the same valid bytes re-encode
    to the canonical item there as well."""
    from secsgem.secs import item as I

    ctx.count("oracle.item_api_decode")
    wit = {"input": data[:100], "tree": gen.describe(tree)}
    try:
        enc = I.Item.decode(data).encode()
    except Exception as exc:
        ctx.violation(f"item-api-decode-raises:{tree[0]}:{type(exc).__name__}", {**wit, "error": repr(exc)[:200]})
        return
    if enc != e5ref.encode(tree):
        ctx.violation(f"item-api-reencode-not-canonical:{tree[0]}", {**wit, "encoded": enc[:100]})


def _judge(ctx, target_name, make_target, data, tree, mech, nontrivial=True, expected=None):
    """Feed `data` (valid E5 for `tree`) to a fresh target object and compare with the reference."""
    canon = _canon(tree)
    ref = e5ref.encode(canon)
    ctx.case((target_name, data if len(data) < 2048 else (data[:64], len(data), hash(data))), nontrivial=nontrivial)
    wit = {"target": target_name, "input": data[:120], "tree": gen.describe(tree)}
    try:
        obj = make_target()
    except Exception as exc:
        ctx.unsure(f"cannot build target {target_name}: {exc!r}")
        return
    try:
        pos = obj.decode(data)
    except Exception as exc:
        ctx.violation(f"decode-raises:{mech}:{type(exc).__name__}", {**wit, "error": repr(exc)[:200]})
        return
    if pos != len(data):
        ctx.violation(f"decode-position:{mech}", {**wit, "pos": pos, "want": len(data)})
    try:
        got = obj.get()
        exp = sv.expected_get(canon) if expected is None else expected
        if not sv.same_value(got, exp):
            ctx.violation(f"value-mismatch:{mech}", {**wit, "got": got, "expected": exp})
        enc = obj.encode()
        if enc != ref:
            ctx.violation(f"reencode-not-canonical:{mech}", {**wit, "encoded": enc[:120], "canonical": ref[:120]})
    except Exception as exc:
        ctx.violation(f"get-or-encode-raises:{mech}:{type(exc).__name__}", {**wit, "error": repr(exc)[:200]})
        return
    _judge_reused(ctx, make_target, data, canon, ref, mech, wit)


_PREFILL_RNG = __import__("random").Random(20260923)


def _prefill_for(canon):
    """A different valid item the same target should accept: same format, other length (a receive buffer / a message
    object that is decoded into more than once holds the previous value)."""
    fmt, val = canon
    if fmt == "L":
        return ("L", list(val) + [("U1", [7])]) if len(val) < 4 else ("L", list(val)[:1])
    n = len(val)
    other = gen.leaf(_PREFILL_RNG, fmt, n=(n + 2 if n < 3 else 1))
    return _canon(other)


def _judge_reused(ctx, make_target, data, canon, ref, mech, wit):
    """The same bytes decoded into an object that already holds another value must give the same result."""
    try:
        pre = e5ref.encode(_prefill_for(canon))
        obj = make_target()
        obj.decode(pre)
    except Exception:
        ctx.count("reused_target.prefill_not_accepted")     # fixed-length data item, restricted formats, ...: no reuse target
        return
    ctx.count("oracle.decode_into_used_object")
    try:
        pos = obj.decode(data)
        if pos != len(data):
            ctx.violation(f"decode-position:used-object:{mech}", {**wit, "pos": pos, "want": len(data), "held_before": pre[:60]})
            return
        enc = obj.encode()
    except Exception as exc:
        ctx.violation(f"decode-raises:used-object:{mech}:{type(exc).__name__}", {**wit, "error": repr(exc)[:200], "held_before": pre[:60]})
        return
    if enc != ref:
        ctx.violation(f"decode-into-used-object-keeps-or-mixes-old-value:{mech}", {**wit, "encoded": enc[:120], "canonical": ref[:120], "held_before": pre[:60]})
        return
    # the same for an object whose value was *set* with an explicitly typed variable (element type / length limit of its own):
    # what is decoded later replaces that variable, it is not squeezed into it
    V = sv.V
    fmt = canon[0]
    try:
        obj = make_target()
        if not isinstance(obj, V.Dynamic):
            return
        if fmt == "L":
            typed = V.Array(V.U4, [1, 2])
        elif fmt in ("A", "J"):
            typed = sv.VCLS[fmt]("ab", count=2)
        elif fmt == "B":
            typed = V.Binary(b"\x01", count=1)
        elif fmt == "BOOLEAN":
            typed = V.Boolean(True, count=1)
        else:
            typed = sv.VCLS[fmt](1, count=1)
        obj.set(typed)
    except Exception:
        ctx.count("reused_target.typed_set_not_accepted")
        return
    ctx.count("oracle.decode_into_object_set_with_a_typed_variable")
    try:
        pos = obj.decode(data)
        enc = obj.encode()
    except Exception as exc:
        ctx.violation(f"decode-raises:object-set-with-typed-variable:{mech}:{type(exc).__name__}", {**wit, "error": repr(exc)[:200], "held_before": repr(typed)[:60]})
        return
    if pos != len(data) or enc != ref:
        ctx.violation(f"decode-into-used-object-keeps-or-mixes-old-value:typed-set:{mech}", {**wit, "encoded": enc[:120], "canonical": ref[:120], "held_before": repr(typed)[:60]})


def _enumerate_code_lenbytes(ctx):
    """Every format code x every legal number of length bytes, at the top level and inside a list."""
    rng = ctx.rng
    V = sv.V
    for fmt in ANY_FMTS + ["L", "J"]:
        for nlen in (1, 2, 3):
            for n in (0, 1, 3):
                tree = ("L", [("U1", [i]) for i in range(n)]) if fmt == "L" else gen.leaf(rng, fmt, n=n)
                data = e5ref.encode(tree, lambda path, need: nlen if path == () else need)
                if fmt != "J":
                    _judge(ctx, "ANYVALUE", sv.ANYVALUE, data, tree, f"anyvalue:{fmt}:len{nlen}")
                    ctx.count("oracle.anyvalue")
                if fmt != "L":
                    _judge(ctx, fmt, sv.VCLS[fmt], data, tree, f"typed:{fmt}:len{nlen}")
                    ctx.count("oracle.typed")
                    if fmt != "J":
                        # nested: the inner item uses nlen, the outer list too
                        outer = ("L", [tree, ("U2", [513])])
                        d2 = e5ref.encode(outer, lambda path, need: nlen)
                        _judge(ctx, "ANYVALUE", sv.ANYVALUE, d2, outer, f"anyvalue:nested:{fmt}:len{nlen}")
                        ctx.count("oracle.anyvalue")
                else:
                    cls = sv.item_class("U1")
                    _judge(ctx, "Array(U1)", lambda: V.Array(cls), data, tree, f"array:len{nlen}")
                    ctx.count("oracle.typed")
                ctx.count("nonminimal.inputs")
            ctx.count("enumerated.code_x_lenbytes")
    ctx.exhaustive["format_code_x_length_byte_count"] = True


def _long_items(ctx):
    """Items with many elements (13 .. 1000, around every power of two): an implementation may read long items by another
    route than short ones. Values random, all zero, and zero at every other position."""
    rng = ctx.rng
    counts = [13, 16, 17, 31, 32, 33, 40, 63, 64, 65, 100, 127, 128, 129, 255, 256, 257, 1000]
    for fmt in gen.LEAF_FMTS:
        for n in counts + [rng.randint(13, 600) for _ in range(2 if ctx.quick else 30)]:
            trees = [gen.leaf(rng, fmt, n=n)]
            if fmt not in ("A", "J", "B", "BOOLEAN"):
                vals = trees[0][1]
                trees.append((fmt, [0] * n))
                trees.append((fmt, [0 if i % 2 == 0 else v for i, v in enumerate(vals)]))
                trees.append((fmt, [v if i % 2 == 0 else 0 for i, v in enumerate(vals)]))
            for tree in trees:
                data = e5ref.encode(tree, _random_lenbytes(rng, 0.3))
                _judge(ctx, fmt, sv.VCLS[fmt], data, tree, f"typed:long:{fmt}")
                ctx.count("oracle.typed")
                if fmt != "J":
                    _judge(ctx, "ANYVALUE", sv.ANYVALUE, data, tree, f"anyvalue:long:{fmt}")
                    ctx.count("oracle.anyvalue")
                    outer = ("L", [("U1", [1]), tree, ("A", b"x")])
                    _judge(ctx, "ANYVALUE", sv.ANYVALUE, e5ref.encode(outer), outer, f"anyvalue:nested-long:{fmt}")
                    _judge_item_api(ctx, data, tree)
                ctx.count("long_items")


def _float_patterns(ctx):
    V = sv.V
    rng = ctx.rng
    for bits in gen.F4_SPECIAL_BITS + [rng.getrandbits(32) for _ in range(300)]:
        if (bits >> 23) & 0xFF == 0xFF:
            continue
        x = gen.f4_from_bits(bits)
        data = e5ref.header(e5ref.CODES["F4"], 4, rng.randint(1, 3)) + bits.to_bytes(4, "big")
        _judge(ctx, "F4", V.F4, data, ("F4", [x]), "typed:F4:bits")
        _judge(ctx, "ANYVALUE", sv.ANYVALUE, data, ("F4", [x]), "anyvalue:F4:bits")
        ctx.count("oracle.typed")
        ctx.count("float.patterns")
    for bits in gen.F8_SPECIAL_BITS + [rng.getrandbits(64) for _ in range(300)]:
        if (bits >> 52) & 0x7FF == 0x7FF:
            continue
        x = gen.f8_from_bits(bits)
        data = e5ref.header(e5ref.CODES["F8"], 8, rng.randint(1, 3)) + bits.to_bytes(8, "big")
        _judge(ctx, "F8", V.F8, data, ("F8", [x]), "typed:F8:bits")
        _judge(ctx, "ANYVALUE", sv.ANYVALUE, data, ("F8", [x]), "anyvalue:F8:bits")
        ctx.count("oracle.typed")
        ctx.count("float.patterns")


def _dataitems(ctx):
    from secsgem.secs import data_items as DI

    V = sv.V
    rng = ctx.rng
    rev = {cls: fmt for fmt, cls in sv.VCLS.items()}
    classes = sorted((c for _, c in inspect.getmembers(DI, inspect.isclass)
                      if issubclass(c, DI.DataItemBase) and c is not DI.DataItemBase), key=lambda c: c.__name__)
    idx = 0
    pairs = 0
    for cls in classes:
        typ = cls.__type__
        allowed = cls.__allowedtypes__ if typ is V.Dynamic else [typ]
        limit = cls.__count__
        for t in allowed:
            pairs += 1
            for rep in range(2 if ctx.quick else 6):
                idx += 1
                if not ctx.mine(idx):
                    continue
                if t is V.Array:
                    tree = ("L", [gen.leaf(rng, rng.choice(["U4", "A", "B"])) for _ in range(rng.randint(0, 3))])
                    mech = f"dataitem:{cls.__name__}:L"
                else:
                    fmt = rev.get(t)
                    if fmt is None:
                        continue
                    n = rng.choice([0, 1, 2, 5]) if limit <= 0 else rng.choice([0, 1, limit])
                    tree = gen.leaf(rng, fmt, n=n)
                    mech = f"dataitem:{cls.__name__}:{fmt}"
                data = e5ref.encode(tree, _random_lenbytes(rng, 0.7))
                _judge(ctx, cls.__name__, cls, data, tree, mech)
                ctx.count("oracle.dataitem")
    ctx.note("data_item_x_allowed_format_pairs", pairs)
    ctx.exhaustive["data_item_x_allowed_format"] = True


def _mutants(ctx, n):
    """Byte mutations of valid encodings that the strict reference decoder still accepts."""
    rng = ctx.rng
    tried = 0
    for _ in range(n):
        tree = _tree_no_j(rng, 3, 4)
        data = bytearray(e5ref.encode(tree, _random_lenbytes(rng, 0.3)))
        if not data:
            continue
        for _ in range(rng.randint(1, 2)):
            i = rng.randrange(len(data))
            data[i] = rng.choice([data[i] ^ (1 << rng.randrange(8)), rng.getrandbits(8)])
        data = bytes(data)
        tried += 1
        try:
            t2 = e5ref.decode_all(data)
        except e5ref.E5Error:
            ctx.count("mutants.rejected_by_reference")
            continue
        if _has_fmt(t2, "J") or not _finite(t2):
            ctx.count("mutants.outside_property")
            continue
        ctx.count("mutants.accepted_by_reference")
        _judge(ctx, "ANYVALUE", sv.ANYVALUE, data, t2, f"anyvalue:mutant:{t2[0]}")
        ctx.count("oracle.anyvalue")


def _typed_structures(ctx):
    """Typed arrays/records decoding foreign bytes with non-minimal lengths at every level."""
    rng = ctx.rng
    V = sv.V
    fmt = rng.choice(ANY_FMTS + ["J"])
    cls = sv.item_class(fmt)
    kids = [gen.leaf(rng, fmt) for _ in range(rng.randint(0, 5))]
    tree = ("L", kids)
    data = e5ref.encode(tree, _random_lenbytes(rng, 0.6))
    _judge(ctx, f"Array({fmt})", lambda: V.Array(cls), data, tree, f"array:{fmt}")
    ctx.count("oracle.typed")
    fmts = list(dict.fromkeys(f for f in (rng.choice(gen.LEAF_FMTS) for _ in range(rng.randint(2, 5))) if f != "I4"))
    if len(fmts) >= 2:
        kids = [gen.leaf(rng, f) for f in fmts]
        sub = [gen.leaf(rng, "U2"), gen.leaf(rng, "A")]
        arr = [gen.leaf(rng, "I4") for _ in range(rng.randint(0, 3))]
        tree = ("L", kids + [("L", sub), ("L", arr)])
        data_format = [sv.item_class(f) for f in fmts] + [["SUB", sv.item_class("U2"), sv.item_class("A")], [sv.item_class("I4")]]
        expected = {sv.item_class(f).__name__: sv.expected_get(_canon(k)) for f, k in zip(fmts, kids)}
        expected["SUB"] = {"XU2": sv.expected_get(sub[0]), "XA": sv.expected_get(sub[1])}
        expected["XI4"] = [sv.expected_get(a) for a in arr]
        data = e5ref.encode(tree, _random_lenbytes(rng, 0.6))
        _judge(ctx, "List(record)", lambda: V.List(data_format), data, tree, "record", expected=expected)
        ctx.count("oracle.typed")
        ctx.count("nonminimal.inputs")


def run(ctx):
    rng = ctx.rng
    if ctx.shard == 0:
        _enumerate_code_lenbytes(ctx)
    if ctx.shard == 1 % ctx.nshards:
        _float_patterns(ctx)
    if ctx.shard == 2 % ctx.nshards:
        _long_items(ctx)
    _dataitems(ctx)
    n = 10000 if ctx.quick else 600000
    _mutants(ctx, n // 2)
    for i in range(n):
        r = i % 8
        if r < 4:
            tree = _tree_no_j(rng, rng.choice([1, 2, 3, 6]), 4)
            data = e5ref.encode(tree, _random_lenbytes(rng, 0.5))
            nonmin = data != e5ref.encode(tree)
            if nonmin:
                ctx.count("nonminimal.inputs")
            _judge(ctx, "ANYVALUE", sv.ANYVALUE, data, tree, f"anyvalue:{tree[0]}",
                   nontrivial=nonmin or tree[0] == "L" or len(e5ref.payload(tree)) > 1)
            ctx.count("oracle.anyvalue")
            if i % 4 == 0:
                _judge_item_api(ctx, data, tree)
            ctx.maximum("nesting_depth", gen.depth_of(tree))
            if i < 2:
                ctx.sample({"target": "ANYVALUE", "input_bytes": data[:60], "tree": gen.describe(tree)})
        elif r < 6:
            tree = gen.leaf(rng)
            fmt = tree[0]
            data = e5ref.encode(tree, _random_lenbytes(rng, 0.6))
            if data != e5ref.encode(tree):
                ctx.count("nonminimal.inputs")
            _judge(ctx, fmt, sv.VCLS[fmt], data, tree, f"typed:{fmt}")
            ctx.count("oracle.typed")
            # Dynamic restricted to a set containing the format
            others = [f for f in rng.sample(gen.LEAF_FMTS, 3) if f != fmt]
            types = [sv.VCLS[f] for f in [fmt] + others]
            rng.shuffle(types)
            _judge(ctx, "Dynamic", lambda: sv.V.Dynamic(types), data, tree, f"dynamic:{fmt}")
            # "empty means all types are supported": every format code, lists and JIS-8 included
            _judge(ctx, "Dynamic([])", lambda: sv.V.Dynamic([]), data, tree, f"dynamic-all-types:{fmt}")
            ctx.count("oracle.dynamic_without_type_list")
            if i % 16 == 4:
                # elements of a list are read as ANYVALUE, whose definition does not include JIS-8: no J below the top level
                t2 = _tree_no_j(rng, 2, 3)
                d2 = e5ref.encode(t2, _random_lenbytes(rng, 0.3))
                _judge(ctx, "Dynamic([])", lambda: sv.V.Dynamic([]), d2, t2, f"dynamic-all-types:nested:{t2[0]}")
        else:
            _typed_structures(ctx)
