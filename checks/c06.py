"""C06 - replies reach exactly their requester; other messages are delivered once, in order, one at a time.

History checker: several application threads issue tagged requests through the real HsmsProtocol while a
scripted peer answers in various orders (immediately, reversed, permuted, dropped, late, twice) and injects
bursts of unsolicited primaries; the link is closed and re-established between rounds. Seeded yield injection
on the protocol files perturbs the schedule. Unique tags make the history unambiguous.
"""

from __future__ import annotations

import contextlib
import itertools
import queue
import threading
import time

from lib import e5ref, sched, steer, stuck, vtime, wire

PROPERTY = "C06"
LEVEL = "exploration"
RULE = ("histories of 2-8 requester threads x 1-6 tagged S2F25 requests against a scripted peer (reply policies: immediate, "
        "reversed batch, random permutation, drop, late after T3, duplicate) interleaved with bursts of up to 30 unsolicited "
        "primaries, over 1-5 close/reconnect/select cycles, under seeded yield injection; distinct by interleaving signature "
        "and policy; non-trivial when at least two requests were outstanding simultaneously. SECS-I: histories of 2-6 "
        "requester threads with single- and multi-block S2F25 requests all outstanding together over a scripted line peer, then "
        "replies and unsolicited primaries (single/multi-block) in order / reversed / shuffled / with the blocks of different "
        "messages interleaved / partly dropped, over 1-3 line close/reopen cycles, both device roles; plus (HSMS): replies with the abort function S2F0; a partial frame behind a complete message in one segment before the link loss; a handler that is still running while the link is lost (peer close or disable + enable) and a new link brings 2-10 messages; transaction counters that start just below the 32-bit wrap or a carry")
ASSUMPTIONS = ["SECS-I histories keep the two directions in separate phases (only one side transmits at a time, as C17 assumes); "
               "line contention is not produced",
               "a reply that arrives after its requester timed out may be handed to the application as an ordinary message or be "
               "discarded; it must only never reach another requester",
               "the start value of the transaction counter (drawn by the library with random.randint) is chosen by the harness in 40 % of "
               "the histories so that the requests cross the 32-bit wrap or an 8/16/24/31-bit carry; a tree that draws it otherwise is "
               "not steered (counted)"]
LEVEL_TEXT = ("Runtime history checking (unique tags, linear-time) of the real request/reply routing and delivery path under "
              "concurrent callers, hostile reply orders, reconnects and injected yields; interleavings are sampled and counted.")
LEVEL_NOTE = "Schedules sampled with seeded yield injection; distinct interleaving signatures are reported, not all are explored."
TECHNIQUE = "offline history checker over recorded call/return/wire events under concurrent workload + yield injection"
SHARDS = {"quick": 8, "thorough": 16}
TIMEOUT = {"quick": 400, "thorough": 3400}
FLOORS = {"histories.with_overlapping_requests": 50, "oracle.requests_checked": 500, "oracle.unsolicited_checked": 1000,
          "reconnect.cycles": 10, "interleaving.distinct_signatures": 20, "secsi.requests_checked": 200,
          "secsi.rounds_with_interleaved_blocks": 10, "secsi.unsolicited_checked": 100, "oracle.busy_handler_across_reconnect": 30}

UNSOL_BASE = 0x70000000


class Peer:
    """Scripted remote entity: parses outbound frames incrementally and answers according to a policy."""

    def __init__(self, rig, rng, policy, t3, avoid=None):
        self.rig = rig
        self.rng = rng
        self.policy = policy
        self.t3 = t3
        self.buf = bytearray()
        self.lock = threading.Lock()
        self.requests = []        # (clock, generation, system, tag)
        self.pending = []         # requests not yet answered
        self.replies = []         # (serial, system, tag, when, in_time)
        self.serial = itertools.count(1)
        self.clock = itertools.count(1)
        self.q = queue.Queue()
        self.stop = False
        self.unsol_sent = []      # systems in injection order
        self.aborted = {}         # system -> tag of requests answered with the abort function S2F0
        self.peer_requests = []   # systems of W primaries (S1F1) the application answers with send_response
        self.app_replies = []     # systems of the S1F2 the endpoint sent
        self.special = [0, 1, 0x7FFFFFFF, 0x80000000, 0xFFFFFFFF, 0xFFFFFFFE]   # boundary transaction ids, each used once
        if avoid is not None:
            # E5 asks for distinct system bytes among the open transactions of *one* originator; this workload does not
            # produce a peer request that carries the id of a request the endpoint has outstanding at the same moment
            # (outside the statement's quantifier), so boundary ids the steered counter is about to use are left out
            self.special = [s for s in self.special if (s - avoid) % 2 ** 32 > 600]
        rng.shuffle(self.special)
        self.unsol_seq = itertools.count(0)
        self.link_lock = threading.Lock()   # serialises injections with the harness closing the link
        self.paused = False
        rig.pipe.on_send = self._on_send
        self.thread = threading.Thread(target=stuck.harness_thread(self._run), daemon=True, name="harness-peer")
        self.thread.start()

    def reset_link(self):
        with self.lock:
            self.buf = bytearray()

    def _on_send(self, data, gen):
        with self.lock:
            self.buf += data
            frames, rest = wire.parse_hsms_stream(bytes(self.buf))
            self.buf = bytearray(rest)
        for f in frames:
            if f.stype == wire.DATA and (f.stream, f.function) == (1, 2):
                with self.lock:
                    self.app_replies.append(f.system)
            if f.stype == wire.DATA and (f.stream, f.function) == (2, 25):
                try:
                    tag = bytes(e5ref.decode_all(f.body)[1])
                except Exception:
                    tag = b"?"
                rec = (next(self.clock), gen, f.system, tag, time.monotonic())
                with self.lock:
                    self.requests.append(rec)
                self.q.put(rec)

    def reply_frame(self, system, tag):
        serial = next(self.serial)
        if self.rng.random() < 0.12:
            # the peer aborts the transaction: S2F0 is the reply to this request just like an S2F26 would be
            self.aborted[system] = tag
            return serial, wire.hsms_data(2, 0, False, system, b"")
        body = e5ref.encode(("B", tag + serial.to_bytes(4, "big")))
        return serial, wire.hsms_data(2, 26, False, system, body)

    def answer(self, rec, late=False):
        _, gen, system, tag, seen = rec
        serial, frame = self.reply_frame(system, tag)
        with self.link_lock:
            if gen != self.rig.pipe.generation or not self.rig.pipe.link_up or self.paused:
                return
            with self.lock:
                self.replies.append({"serial": serial, "system": system, "tag": tag, "late": late,
                                     "delay": time.monotonic() - seen})
            self.rig.pipe.feed(frame)

    def inject_unsolicited(self, n):
        from checks.c04 import _header_only
        ho = _header_only()
        for _ in range(n):
            with self.link_lock:
                if self.paused or not self.rig.pipe.link_up:
                    return
                system = UNSOL_BASE + next(self.unsol_seq)
                s, f = self.rng.choice(ho)
                with self.lock:
                    self.unsol_sent.append(system)
                self.rig.pipe.feed(wire.hsms_data(s, f, False, system, self.rng.randbytes(self.rng.choice([0, 3]))))

    def inject_peer_request(self, system=None):
        """A request of the peer's own (S1F1 W); the application answers it from its callback with send_response."""
        with self.link_lock:
            if self.paused or not self.rig.pipe.link_up:
                return False
            if system is None:
                if not self.special:
                    return False
                system = self.special.pop()
            with self.lock:
                if system in self.unsol_sent:
                    return False
                self.unsol_sent.append(system)
                self.peer_requests.append(system)
            self.rig.pipe.feed(wire.hsms_data(1, 1, True, system, b""))
        return True

    def _run(self):
        rng = self.rng
        batch = []
        while not self.stop:
            try:
                rec = self.q.get(timeout=0.03)
            except queue.Empty:
                rec = None
            pol = self.policy
            if rec is not None:
                if rng.random() < 0.3:
                    self.inject_unsolicited(rng.randint(1, 6))
                if rng.random() < 0.15:
                    self.inject_peer_request()
                if pol == "immediate":
                    self.answer(rec)
                elif pol == "twice":
                    self.answer(rec)
                    self.answer(rec)
                elif pol == "drop":
                    if rng.random() < 0.5:
                        self.answer(rec)
                elif pol == "late":
                    if rng.random() < 0.5:
                        threading.Thread(target=stuck.harness_thread(self._late), args=(rec,), daemon=True).start()
                    else:
                        self.answer(rec)
                else:
                    batch.append(rec)
            if batch and (rec is None or len(batch) >= 4):
                if pol == "reverse":
                    batch.reverse()
                else:
                    rng.shuffle(batch)
                for r in batch:
                    self.answer(r)
                batch = []

    def _late(self, rec):
        time.sleep(self.t3 + 0.15)
        self.answer(rec, late=True)


def _late_reply(m, peer):
    """A reply (S2F26 or the abort S2F0) that arrived after its requester had timed out and is handed to the application as an
    ordinary message; the peer may have used the same transaction id for a request of its own in the meantime."""
    return (m["stream"], m["function"]) in ((2, 26), (2, 0)) and m["system"] in peer.peer_requests


def _count_unsol(rig, peer):
    mine = set(peer.unsol_sent)
    # a late S2F26 may share its transaction id with a later request of the peer: it is a reply, not one of these primaries
    return sum(1 for m in list(rig.delivered) if m["system"] in mine and not _late_reply(m, peer))


def _history(ctx, inj, idx):
    from lib.hsmsrig import Rig
    import secsgem.secs.functions as F

    rng = ctx.rng
    policy = rng.choice(["immediate", "reverse", "random", "drop", "late", "twice"])
    t3 = 0.2 if policy in ("late", "drop") else 6.0
    # the start value of the transaction counter is an input: close to the 32-bit wrap or a carry in part of the histories
    start = steer.pick(rng) if rng.random() < 0.4 else None
    with steer.start_at(start) if start is not None else contextlib.nullcontext([0]) as hits:
        rig = Rig(active=False, t3=t3)
    if start is not None:
        ctx.count("counter_start.steered_near_wrap_or_carry" if hits[0] else "counter_start.not_steerable")
    _history.last_rig = rig
    def app_callback(rec):
        if (rec["stream"], rec["function"], rec["wbit"]) == (1, 1, True):
            rig.protocol.send_response(F.SecsS01F02(), rec["system"])      # what a handler does for a request of the peer
        elif UNSOL_BASE <= rec["system"] < UNSOL_BASE + 100000:
            time.sleep(0.0004)
    rig.message_hook = app_callback
    if not rig.connect_and_select():
        ctx.violation("cannot-select", {"state": rig.state})
        return
    peer = Peer(rig, rng, policy, t3, avoid=start)
    nthreads = rng.randint(2, 8)
    nreq = rng.randint(1, 6 if policy not in ("late", "drop") else 3)
    cycles = rng.choice([1, 1, 2, 3, 5]) if policy not in ("late",) else 1
    calls = []            # dicts: tag, thread, call_clock, ret_clock, result
    calls_lock = threading.Lock()
    clock = itertools.count(1)
    tagc = itertools.count(1)
    seed = rng.getrandbits(32)
    inj.begin(seed, p=rng.choice([0.05, 0.15, 0.3]), slow=("harness-requester",) if rng.random() < 0.35 else ())
    max_outstanding = [0]
    outstanding = [0]

    def requester(tid):
        stuck.register_harness_thread()
        for _ in range(nreq):
            tag = b"T" + tid.to_bytes(2, "big") + next(tagc).to_bytes(5, "big")
            rec = {"tag": tag, "thread": tid, "call": next(clock), "generation": rig.pipe.generation}
            with calls_lock:
                calls.append(rec)
                outstanding[0] += 1
                max_outstanding[0] = max(max_outstanding[0], outstanding[0])
            try:
                res = rig.protocol.send_and_waitfor_response(F.SecsS02F25(tag))
                if res is None:
                    rec["result"] = None
                else:
                    rec["result"] = {"system": res.header.system, "stream": res.header.stream, "function": res.header.function,
                                     "body": bytes(res.data)}
            except Exception as exc:
                rec["exception"] = repr(exc)
            rec["ret"] = next(clock)
            rec["t_ret"] = time.monotonic()
            with calls_lock:
                outstanding[0] -= 1

    boundaries = []
    for cyc in range(cycles):
        ths = [threading.Thread(target=requester, args=(i,), daemon=True, name=f"harness-requester-{i}") for i in range(nthreads)]
        for t in ths:
            t.start()
        peer.inject_unsolicited(rng.randint(0, 30))
        deadline = time.monotonic() + 30
        for t in ths:
            t.join(max(0.1, deadline - time.monotonic()))
        if any(t.is_alive() for t in ths):
            if stuck.blocked_forever([t for t in ths if t.is_alive()], watch=0.6):
                ctx.violation("requester-blocked-forever", {"policy": policy, "stacks": stuck.stacks()})
            else:
                ctx.unsure("requesters did not finish within 30 s")
            inj.end()
            return
        peer.inject_unsolicited(rng.randint(0, 10))
        peer.inject_peer_request()
        # the two sides number their transactions independently: the peer may use the id of a request of ours that has timed out
        by_tag_now = {r[3]: r for r in list(peer.requests)}
        timed_out = [by_tag_now[c["tag"]][2] for c in calls if c.get("result", 0) is None and c["tag"] in by_tag_now
                     and by_tag_now[c["tag"]][1] == rig.pipe.generation]
        for system in timed_out[:2]:
            if peer.inject_peer_request(system):
                ctx.count("peer_request.reusing_system_bytes_of_a_timed_out_request")
        with peer.link_lock:
            peer.paused = True   # nothing more is put on the wire before the link is closed / the history ends
        rig.wait(lambda: _count_unsol(rig, peer) >= len(peer.unsol_sent), 5.0)
        boundaries.append((len(peer.unsol_sent), _count_unsol(rig, peer)))
        if cyc < cycles - 1:
            if rng.random() < 0.5:
                # the link is lost in the middle of an inbound message
                fr = wire.hsms_data(6, 11, True, 0x7F000000 + cyc, rng.randbytes(rng.choice([0, 40, 400])))
                part = fr[:rng.choice([3, 4, 6, 14, len(fr) - 1])]
                if rng.random() < 0.5:
                    # behind a complete message in the same segment (consumed bytes in front of the partial frame)
                    part = wire.hsms_control(wire.LINKTEST_REQ, 0x7E000000 + cyc) + part
                rig.pipe.feed(part)
                rig.quiesce(0.5)
                ctx.count("reconnect.link_lost_inside_a_frame")
            rig.pipe.peer_close()
            if not rig.pipe.wait_closed(5.0):
                ctx.count("close_sequence_did_not_finish")
                inj.end()
                return
            peer.reset_link()
            ctx.count("reconnect.cycles")
            if not rig.connect_and_select(system=0x1000 + cyc + 1):
                ctx.violation("cannot-select-after-reconnect", {"state": rig.state, "cycle": cyc})
                inj.end()
                return
            peer.paused = False
    if rig.pipe.link_up and rig.state == "CONNECTED_SELECTED" and rng.random() < 0.4:
        # the peer's last messages and, in the same segment, the frame that ends the session: they arrived in SELECTED and are
        # handed over like all the others, while the application is still busy with the first of them
        from checks.c04 import _header_only
        ho = _header_only()
        with peer.link_lock:
            burst = bytearray()
            for _ in range(rng.randint(3, 8)):
                system = UNSOL_BASE + next(peer.unsol_seq)
                s_, f_ = rng.choice(ho)
                with peer.lock:
                    peer.unsol_sent.append(system)
                burst += wire.hsms_data(s_, f_, False, system, b"")
            burst += wire.hsms_control(rng.choice([wire.SEPARATE_REQ, wire.DESELECT_REQ]), 0x7D000000 + idx)
            rig.pipe.feed(bytes(burst))
        ctx.count("session_ended_by_the_peer_directly_behind_its_last_messages")
        rig.wait(lambda: _count_unsol(rig, peer) >= len(peer.unsol_sent), 5.0)
    rig.quiesce(3.0)
    sig, yields, events = inj.end()
    peer.stop = True
    ctx.count("yields_injected", yields)
    ctx.maximum("max_concurrent_requests", max_outstanding[0])
    if max_outstanding[0] >= 2:
        ctx.count("histories.with_overlapping_requests")
    ctx.case(("hist", policy, sig), nontrivial=max_outstanding[0] >= 2)
    base = {"policy": policy, "threads": nthreads, "requests_per_thread": nreq, "cycles": cycles, "schedule_seed": seed}
    if idx == 0:
        ctx.sample({**base, "requests": len(calls), "unsolicited": len(peer.unsol_sent), "interleaving_signature": sig})

    # ---- history checks
    by_tag = {r[3]: r for r in peer.requests}
    # (1) distinct system bytes per link generation
    seen_sys = {}
    for clk, gen, system, tag, _ in peer.requests:
        key = (gen, system)
        if key in seen_sys and seen_sys[key] != tag:
            ctx.violation("duplicate-system-bytes-among-outstanding-requests", {**base, "system": system, "tags": [seen_sys[key].hex(), tag.hex()]})
        seen_sys[key] = tag
    replies_by_serial = {r["serial"]: r for r in peer.replies}
    used_serials = {}
    for c in calls:
        ctx.count("oracle.requests_checked")
        if "exception" in c:
            ctx.violation("request-raises", {**base, "error": c["exception"]})
            continue
        req = by_tag.get(c["tag"])
        res = c.get("result")
        if res is not None:
            try:
                payload = bytes(e5ref.decode_all(res["body"])[1])
            except Exception:
                payload = b""
            rtag, serial = payload[:-4], int.from_bytes(payload[-4:], "big") if len(payload) >= 4 else -1
            if (res["stream"], res["function"]) == (2, 0) and req is not None and res["system"] == req[2] and peer.aborted.get(req[2]) == c["tag"]:
                ctx.count("oracle.abort_replies_returned_to_their_requester")
                continue
            if req is None or res["system"] != req[2] or rtag != c["tag"] or (res["stream"], res["function"]) != (2, 26):
                ctx.violation("caller-received-foreign-reply", {**base, "own_tag": c["tag"].hex(), "own_system": req[2] if req else None,
                                                               "reply_system": res["system"], "reply_tag": rtag.hex()})
            if serial in used_serials:
                ctx.violation("one-reply-returned-to-two-callers", {**base, "serial": serial, "tags": [used_serials[serial].hex(), c["tag"].hex()]})
            used_serials[serial] = c["tag"]
        else:
            # a timely reply must have been returned
            mine = [r for r in peer.replies if r["tag"] == c["tag"] and not r["late"]]
            if mine and t3 >= 5.0 and mine[0]["delay"] < 1.0 and req is not None and req[1] == c["generation"]:
                # the reply was put on the link in time. If the endpoint handed it to the application as an ordinary message
                # *after* the requester had given up (T3 >= 5 s of real time later), its threads were kept off the processor for
                # that long (seen once, load 40 on 16 cores): late, not misrouted. Handed over while the requester was still
                # waiting, or never seen again, it stays a violation.
                late = [m for m in list(rig.delivered) if m["system"] == req[2] and (m["stream"], m["function"]) in ((2, 26), (2, 0))]
                if late and all(m["t"] >= c.get("t_ret", float("inf")) - 0.05 for m in late):
                    ctx.count("replies_in_time_on_the_link_but_dispatched_after_T3_under_load")
                    continue
                ctx.violation("timely-reply-not-returned-to-requester", {**base, "tag": c["tag"].hex(), "reply_delay_s": round(mine[0]["delay"], 4)})
    # (4) unsolicited primaries: exactly once, in arrival order, never overlapping
    mine_unsol = set(peer.unsol_sent)
    got = [m["system"] for m in rig.delivered if m["system"] in mine_unsol and not _late_reply(m, peer)]
    ctx.count("oracle.unsolicited_checked", len(peer.unsol_sent))
    if got != peer.unsol_sent:
        rig.confirm_absent(lambda: _count_unsol(rig, peer) >= len(peer.unsol_sent), 0.5)
        got = [m["system"] for m in rig.delivered if m["system"] in mine_unsol and not _late_reply(m, peer)]
    if got != peer.unsol_sent:
        missing = [s for s in peer.unsol_sent if s not in got]
        dup = sorted({s for s in got if got.count(s) > 1})
        kind = "lost" if missing else "duplicated" if dup else "reordered"
        ctx.violation(f"unsolicited-messages-{kind}", {**base, "sent": len(peer.unsol_sent), "delivered": len(got),
                                                       "state": rig.state, "link_up": rig.pipe.link_up, "sent_vs_delivered_at_each_cycle_end": boundaries,
                                                       "missing_positions": [peer.unsol_sent.index(s) for s in missing[:8]],
                                                       "log_tail": [(e[1], (hex(e[2]["system"]) if isinstance(e[2], dict) else None)) for e in rig.log[-8:]],
                                                       "missing": [hex(s) for s in missing[:5]], "duplicates": [hex(s) for s in dup[:5]],
                                                       "first_difference": next((i for i, (a, b) in enumerate(zip(got, peer.unsol_sent)) if a != b), None)})
    # (5) requests of the peer answered by the application: one S1F2 each, carrying the request's system bytes
    delivered_sys = {m["system"] for m in rig.delivered}
    for system in peer.peer_requests:
        if system not in delivered_sys:
            continue          # reported above as lost
        ctx.count("oracle.peer_requests_answered_by_application")
        n = peer.app_replies.count(system)
        if n != 1:
            rig.confirm_absent(lambda: peer.app_replies.count(system) >= 1)
            n = peer.app_replies.count(system)
        if n != 1:
            ctx.violation("application-reply-does-not-carry-the-request's-system-bytes" if n == 0 else "application-reply-sent-more-than-once",
                          {**base, "request_system": hex(system), "S1F2_systems_seen": [hex(x) for x in peer.app_replies[-8:]]})
    if rig.max_in_callback > 1:
        ctx.violation("message-callbacks-overlap", {**base, "max_concurrent_callbacks": rig.max_in_callback,
                                                    "delivering_threads": len(rig.callback_threads)})
    rig.close(5.0)
    for t in vtime.pending(owner=rig.protocol):
        t.cancel()
    return sig


# --------------------------------------------------------------------------------------------------------------
# SECS-I: the same routing (secsgem/common/protocol.py) behind the block transfer of secsgem/secsi/protocol.py
# --------------------------------------------------------------------------------------------------------------
class LinePeer:
    """Scripted remote end of a SECS-I line. One thread: answers ENQ with EOT, checks and ACKs blocks, reassembles
    messages per system bytes; on command sends blocks itself (ENQ, wait EOT, block, wait ACK). The harness keeps the
    two directions in separate phases, so only one side transmits at a time (the line protocol itself is C17's)."""

    def __init__(self, rig):
        self.rig = rig
        self.rx = queue.Queue()
        self.cmd = queue.Queue()
        self.lock = threading.Lock()
        self.partial = {}          # system -> [(fields, data)]
        self.complete = []         # (fields of first block, body, nblocks, generation) in completion order
        self.completed_at = {}     # system -> time the last block of the request was acknowledged
        self.bad_blocks = []
        self.stray = []
        self.contention = 0
        self.sent_blocks = 0
        self.naks = 0
        self.stop = False
        self.idle = threading.Event()
        rig.pipe.on_send = self._on_send
        self.thread = threading.Thread(target=stuck.harness_thread(self._run), daemon=True, name="harness-linepeer")
        self.thread.start()

    def _on_send(self, data, gen):
        for b in data:
            self.rx.put((b, gen))

    def flush_rx(self):
        while True:
            try:
                self.rx.get_nowait()
            except queue.Empty:
                return

    def _byte(self, timeout):
        try:
            return self.rx.get(timeout=timeout)[0]
        except queue.Empty:
            return None

    def _receive_block(self):
        self.rig.pipe.feed(bytes([wire.EOT]))
        length = self._byte(5.0)
        if length is None:
            self.stray.append("no length byte after EOT")
            return
        raw = bytearray([length])
        for _ in range(length + 2):
            b = self._byte(5.0)
            if b is None:
                self.stray.append("block shorter than its length byte")
                return
            raw.append(b)
        parsed = wire.secs1_parse_block(bytes(raw))
        if parsed is None:
            self.bad_blocks.append(bytes(raw).hex()[:80])
            self.rig.pipe.feed(bytes([wire.NAK]))
            return
        fields, data = parsed
        with self.lock:
            blocks = self.partial.setdefault(fields["system"], [])
            blocks.append((fields, data))
            if fields["ebit"]:
                del self.partial[fields["system"]]
                self.complete.append((blocks[0][0], b"".join(d for _, d in blocks), [f["block"] for f, _ in blocks],
                                      self.rig.pipe.generation))
                self.completed_at[fields["system"]] = time.monotonic()
        self.rig.pipe.feed(bytes([wire.ACK]))

    def _send_block(self, raw):
        self.rig.pipe.feed(bytes([wire.ENQ]))
        while True:
            b = self._byte(5.0)
            if b is None:
                self.stray.append("no EOT for the peer's ENQ")
                return False
            if b == wire.ENQ:
                self.contention += 1      # both ends asked for the line; not produced by the phased workload
                continue
            break
        if b != wire.EOT:
            self.stray.append(f"expected EOT, got {b:#x}")
            return False
        self.rig.pipe.feed(raw)
        b = self._byte(5.0)
        self.sent_blocks += 1
        if b != wire.ACK:
            self.naks += 1
            return False
        return True

    def _run(self):
        while not self.stop:
            try:
                b, _ = self.rx.get(timeout=0.005)
            except queue.Empty:
                try:
                    raws, done = self.cmd.get_nowait()
                except queue.Empty:
                    continue
                ok = True
                for raw in raws:
                    if self.stop or not self.rig.pipe.link_up:
                        ok = False
                        break
                    ok = self._send_block(raw) and ok
                done.append(ok)
                continue
            if b == wire.ENQ:
                self._receive_block()
            else:
                self.stray.append(f"unexpected byte {b:#x} while the line was idle")

    def send_blocks(self, raws, timeout=30.0):
        done = []
        self.cmd.put((raws, done))
        end = time.monotonic() + timeout
        while time.monotonic() < end and not done:
            time.sleep(0.001)
        return bool(done and done[0])


def _secsi_history(ctx, inj, idx):
    import secsgem.common
    import secsgem.secs.functions as F
    from lib.secsirig import SecsIRig

    rng = ctx.rng
    host = rng.random() < 0.5
    policy = rng.choice(["in-order", "reversed", "shuffled", "blocks-interleaved", "blocks-interleaved", "drop-some"])
    t3 = 3.0 if policy == "drop-some" else 20.0
    start = steer.pick(rng) if rng.random() < 0.4 else None
    with steer.start_at(start) if start is not None else contextlib.nullcontext([0]) as hits:
        rig = SecsIRig(device_type=secsgem.common.DeviceType.HOST if host else secsgem.common.DeviceType.EQUIPMENT, t3=t3)
    if start is not None:
        ctx.count("secsi.counter_start.steered_near_wrap_or_carry" if hits[0] else "secsi.counter_start.not_steerable")
    peer = LinePeer(rig)
    in_callback = [0]
    max_in_callback = [0]
    cb_lock = threading.Lock()

    def spy(data):
        with cb_lock:
            in_callback[0] += 1
            max_in_callback[0] = max(max_in_callback[0], in_callback[0])
        time.sleep(0.0003)
        with cb_lock:
            in_callback[0] -= 1
    rig.protocol.events.message_received += spy
    nthreads = rng.randint(2, 6)
    cycles = rng.choice([1, 2, 3])
    base = {"transport": "SECS-I", "role": "host" if host else "equipment", "policy": policy, "threads": nthreads, "cycles": cycles}
    calls = []
    calls_lock = threading.Lock()
    tagc = itertools.count(1)
    serialc = itertools.count(1)
    seed = rng.getrandbits(32)
    inj.begin(seed, p=rng.choice([0.05, 0.15, 0.3]))
    unsol_sent = []          # systems in the order their last block was put on the line
    replies = {}             # serial -> tag
    dropped = set()
    asked_at = {}            # tag -> when the request had arrived completely
    answered_by = {}         # tag -> when the last reply block of its round was on the line
    try:
        for cyc in range(cycles):
            n_before = len(peer.complete)

            def requester(tid, size):
                stuck.register_harness_thread()
                tag = b"T" + tid.to_bytes(2, "big") + next(tagc).to_bytes(5, "big")
                rec = {"tag": tag, "thread": tid, "size": size, "generation": rig.pipe.generation}
                with calls_lock:
                    calls.append(rec)
                try:
                    res = rig.protocol.send_and_waitfor_response(F.SecsS02F25(tag + bytes(size)))
                    rec["result"] = None if res is None else {"system": res.header.system, "stream": res.header.stream,
                                                              "function": res.header.function, "body": bytes(res.data)}
                except Exception as exc:
                    rec["exception"] = repr(exc)
                rec["returned"] = True
            sizes = [rng.choice([0, 0, 100, 236, 237, 500, 1200]) for _ in range(nthreads)]
            ths = [threading.Thread(target=requester, args=(i, sizes[i]), daemon=True, name=f"harness-requester-{i}") for i in range(nthreads)]
            for t in ths:
                t.start()
            # phase A: only the endpoint transmits; every request is outstanding until phase B
            ok = rig.wait(lambda: len(peer.complete) - n_before >= nthreads, 20.0, min_idle=1.5)
            if not ok:
                rig.confirm_absent(lambda: len(peer.complete) - n_before >= nthreads)
            reqs = peer.complete[n_before:]
            if len(reqs) < nthreads:
                if peer.stray or peer.bad_blocks:
                    ctx.violation("secsi:request-blocks-malformed-on-the-line", {**base, "stray": peer.stray[:4], "bad_blocks": peer.bad_blocks[:2]})
                else:
                    ctx.violation("secsi:concurrent-requests-not-all-transmitted", {**base, "sent": nthreads, "arrived": len(reqs), "stacks": stuck.stacks(6)})
                return
            ctx.count("secsi.requests_outstanding_together", nthreads)
            systems = [f["system"] for f, _, _, _ in reqs]
            if len(set(systems)) != len(systems):
                ctx.violation("secsi:duplicate-system-bytes-among-outstanding-requests", {**base, "systems": [hex(x) for x in systems]})
            for f, body, blocknos, _ in reqs:
                if blocknos != list(range(1, len(blocknos) + 1)):
                    ctx.violation("secsi:blocks-of-one-message-out-of-order-on-the-line", {**base, "block_numbers": blocknos})
                if len(blocknos) > 1:
                    ctx.count("secsi.multi_block_requests")
            # phase B: only the peer transmits: replies (policy order) and unsolicited primaries, blocks possibly interleaved
            streams = []
            for f, body, _, _ in reqs:
                try:
                    tag = bytes(e5ref.decode_all(body)[1])[:8]
                except Exception:
                    tag = b"?"
                if policy == "drop-some" and rng.random() < 0.4:
                    dropped.add(tag)
                    continue
                serial = next(serialc)
                replies[serial] = tag
                asked_at[tag] = peer.completed_at.get(f["system"], time.monotonic())
                rbody = e5ref.encode(("B", tag + serial.to_bytes(4, "big") + bytes(rng.choice([0, 0, 250, 700]))))
                streams.append([wire.secs1_block(wire.secs1_header(**h), d)
                                for h, d in wire.secs1_split(0, not host, 2, False, 26, f["system"], rbody)])
            from checks.c04 import _header_only
            ho = _header_only()
            for _ in range(rng.randint(0, 8)):
                system = UNSOL_BASE + len(unsol_sent) + 1000 * idx + 17
                st, fn = rng.choice(ho)
                ubody = bytes(rng.choice([0, 0, 10, 300, 600]))
                streams.append(("unsol", system, [wire.secs1_block(wire.secs1_header(**h), d)
                                                  for h, d in wire.secs1_split(0, not host, st, False, fn, system, ubody)]))
            if policy == "reversed":
                streams.reverse()
            elif policy != "in-order":
                rng.shuffle(streams)
            seqs = [(s[2] if isinstance(s, tuple) else s, s[1] if isinstance(s, tuple) else None) for s in streams]
            order = []
            if policy == "blocks-interleaved":
                cursors = [0] * len(seqs)
                live = [i for i in range(len(seqs))]
                while live:
                    i = rng.choice(live)
                    blocks, usys = seqs[i]
                    order.append((blocks[cursors[i]], usys if cursors[i] == len(blocks) - 1 else None))
                    cursors[i] += 1
                    if cursors[i] == len(blocks):
                        live.remove(i)
                ctx.count("secsi.rounds_with_interleaved_blocks")
            else:
                for blocks, usys in seqs:
                    for k, b in enumerate(blocks):
                        order.append((b, usys if k == len(blocks) - 1 else None))
            for raw, usys in order:
                if usys is not None:
                    unsol_sent.append(usys)
            if order and not peer.send_blocks([raw for raw, _ in order]):
                ctx.violation("secsi:endpoint-does-not-accept-well-formed-blocks", {**base, "stray": peer.stray[:4], "naks": peer.naks})
                return
            now = time.monotonic()
            for tag in asked_at:
                answered_by.setdefault(tag, now)
            deadline = time.monotonic() + t3 + 10
            for t in ths:
                t.join(max(0.1, deadline - time.monotonic()))
            if any(t.is_alive() for t in ths):
                if stuck.blocked_forever([t for t in ths if t.is_alive()], watch=0.6):
                    ctx.violation("secsi:requester-blocked-forever", {**base, "stacks": stuck.stacks(6)})
                else:
                    ctx.unsure("SECS-I requesters did not return in time")
                return
            rig.wait(lambda: sum(1 for m in rig.delivered if m["system"] in set(unsol_sent)) >= len(unsol_sent), 5.0)
            if cyc < cycles - 1:
                rig.pipe.peer_close()
                if not rig.pipe.wait_closed(5.0):
                    ctx.count("close_sequence_did_not_finish")
                    return
                peer.flush_rx()
                rig.pipe.connect()
                ctx.count("secsi.reconnect_cycles")
    finally:
        sig, yields, _ = inj.end()
        ctx.count("yields_injected", yields)
        peer.stop = True
    ctx.count("histories.secsi")
    ctx.case(("secsi-hist", base["role"], policy, sig), nontrivial=nthreads >= 2)
    used = {}
    for c in calls:
        ctx.count("oracle.requests_checked")
        ctx.count("secsi.requests_checked")
        if "exception" in c:
            ctx.violation("secsi:request-raises", {**base, "error": c["exception"]})
            continue
        res = c.get("result")
        if res is None:
            if c["tag"] not in dropped:
                # only a reply that was on the line well within T3 of the request must have been returned
                late = answered_by.get(c["tag"], 1e18) - asked_at.get(c["tag"], 0)
                if late < t3 * 0.5:
                    ctx.violation("secsi:timely-reply-not-returned-to-requester", {**base, "tag": c["tag"].hex(), "size": c["size"], "reply_after_s": round(late, 3)})
                else:
                    ctx.count("secsi.replies_not_timely_under_load")
            continue
        try:
            payload = bytes(e5ref.decode_all(res["body"])[1])
        except Exception:
            payload = b""
        rtag, serial = payload[:8], int.from_bytes(payload[8:12], "big") if len(payload) >= 12 else -1
        if rtag != c["tag"] or (res["stream"], res["function"]) != (2, 26) or replies.get(serial) != c["tag"]:
            ctx.violation("secsi:caller-received-foreign-reply", {**base, "own_tag": c["tag"].hex(), "reply_tag": rtag.hex(), "reply_system": res["system"]})
        if serial in used:
            ctx.violation("secsi:one-reply-returned-to-two-callers", {**base, "serial": serial})
        used[serial] = c["tag"]
    mine = set(unsol_sent)
    got = [m["system"] for m in rig.delivered if m["system"] in mine]
    ctx.count("oracle.unsolicited_checked", len(unsol_sent))
    ctx.count("secsi.unsolicited_checked", len(unsol_sent))
    if got != unsol_sent:
        rig.confirm_absent(lambda: sum(1 for m in rig.delivered if m["system"] in mine) >= len(unsol_sent))
        got = [m["system"] for m in rig.delivered if m["system"] in mine]
    if got != unsol_sent:
        missing = [x for x in unsol_sent if x not in got]
        dup = sorted({x for x in got if got.count(x) > 1})
        kind = "lost" if missing else "duplicated" if dup else "reordered"
        ctx.violation(f"secsi:unsolicited-messages-{kind}", {**base, "sent": [hex(x) for x in unsol_sent[:12]], "delivered": [hex(x) for x in got[:12]]})
    if max_in_callback[0] > 1:
        ctx.violation("secsi:message-callbacks-overlap", {**base, "max_concurrent_callbacks": max_in_callback[0]})
    if peer.contention:
        ctx.count("secsi.line_contention_seen", peer.contention)
    rig.close(5.0)
    return sig


def _handler_after_reenable(ctx, rounds):
    """The application level of a GEM handler that was disabled and enabled again (once or twice): every inbound primary is
    handed to its callback exactly once, in order, and answered once."""
    from lib.gemrig import GemRig

    rng = ctx.rng
    for r in range(rounds):
        role = rng.choice(["host", "equipment"])
        rig = GemRig(role=role, t3=2.0)
        try:
            if not rig.establish():
                ctx.unsure("handler re-enable: the handler did not reach COMMUNICATING with a cooperative peer (C07/C20 judge that)")
                continue
            cycles = rng.choice([1, 2])
            ok = True
            for _ in range(cycles):
                if not rig.close(5.0):
                    ok = False
                    break
                rig.handler.enable()
                if not rig.establish():
                    ok = False
                    break
            if not ok:
                ctx.unsure("handler re-enable: the handler did not come back after disable + enable (C07/C09/C20 judge that)")
                continue
            seen = []
            rig.handler.register_stream_function(99, 1, lambda h, m: seen.append(m.header.system))
            n = rng.randint(3, 12)
            base = 0x51000000 + r * 64
            n0 = rig.n_frames()
            for i in range(n):
                rig.inject(99, 1, True, b"", base + i)

            def done():
                return len(seen) >= n
            if not rig.wait(done, 6.0):
                rig.confirm_absent(done)
            rig.quiesce(0.5)
            replies = [f.system for _, f in rig.data_frames(n0) if base <= f.system < base + n]
            want = [base + i for i in range(n)]
            ctx.count("oracle.handler_callbacks_after_reenable", n)
            ctx.case(("reenable", role, cycles, n), nontrivial=True)
            if seen != want:
                ctx.violation("handler-callback-not-exactly-once-in-order-after-disable-and-enable",
                              {"role": role, "enable_periods": cycles + 1, "sent": n, "callback_calls": len(seen), "first_calls": [hex(x) for x in seen[:6]]})
            elif len(replies) > n:
                # what is answered is C08's business; here only that nothing is handled (and therefore answered) twice
                ctx.violation("primary-answered-more-than-once-after-disable-and-enable",
                              {"role": role, "enable_periods": cycles + 1, "sent": n, "replies": len(replies)})
        finally:
            rig.shutdown()


def _busy_handler_across_reconnect(ctx, rounds):
    """The application is still inside a message handler when the link is lost and comes back: what arrives on the new link
    is handed over after that handler returned - one at a time, in order, once - not next to it."""
    from lib.hsmsrig import Rig

    rng = ctx.rng
    for r in range(rounds):
        rig = Rig(active=False, t3=3.0)
        release = threading.Event()
        entered = threading.Event()
        base = 0x61000000 + r * 256
        running = []          # systems whose handler is running, to name the overlap in the witness
        overlaps = []

        def hook(rec, release=release, entered=entered, base=base, running=running, overlaps=overlaps):
            if running:
                overlaps.append((hex(running[-1]), hex(rec["system"])))
            running.append(rec["system"])
            try:
                if rec["system"] == base:
                    entered.set()
                    release.wait(8.0)
                else:
                    time.sleep(0.0005)
            finally:
                running.remove(rec["system"])
        rig.message_hook = hook
        try:
            if not rig.connect_and_select():
                ctx.unsure("busy handler: could not select (C05 judges that)")
                continue
            behind = rng.randint(0, 3)          # further messages of the old link queued behind the busy handler
            for i in range(1 + behind):
                rig.pipe.feed(wire.hsms_data(99, 1, False, base + i, b""))
            if not entered.wait(5.0):
                ctx.unsure("busy handler: the first message was not handed over (other parts judge that)")
                continue
            how = rng.choice(["peer_close", "peer_close", "reenable"])
            if how == "peer_close":
                rig.pipe.peer_close()
                closed = rig.pipe.wait_closed(5.0)
            else:
                closed = rig.close(5.0)
                if closed:
                    rig.owner.enable()
            if not closed:
                ctx.count("busy_handler.close_sequence_waits_for_the_handler")
                release.set()
                continue
            # the new link: Select.req and a burst of messages arrive while the old handler is still running
            n = rng.randint(2, 10)
            rig.pipe.connect()
            rig.pipe.feed(wire.hsms_control(wire.SELECT_REQ, base + 0x80))
            for i in range(n):
                rig.pipe.feed(wire.hsms_data(99, 3, False, base + 0x10 + i, b""))
            time.sleep(rng.choice([0.02, 0.1, 0.3]))
            release.set()
            want_new = [base + 0x10 + i for i in range(n)]

            def done():
                with rig.lock:
                    return sum(1 for m in rig.delivered if m["system"] in want_new) >= n
            if not rig.wait(done, 6.0):
                rig.confirm_absent(done)
            rig.quiesce(0.5)
            with rig.lock:
                got = [m["system"] for m in rig.delivered]
            got_new = [x for x in got if x in want_new]
            got_old = [x for x in got if base <= x < base + 0x10]
            ctx.count("oracle.busy_handler_across_reconnect")
            ctx.case(("busy", how, behind, n), nontrivial=True)
            wit = {"link_ended_by": how, "queued_behind_the_busy_handler": behind, "messages_on_new_link": n}
            if overlaps or rig.max_in_callback > 1:
                ctx.violation("message-callbacks-overlap:handler-still-running-when-the-link-came-back",
                              {**wit, "max_concurrent_callbacks": rig.max_in_callback, "running/handed_over": overlaps[:4],
                               "delivering_threads": len(rig.callback_threads)})
            elif got_old != sorted(set(got_old)):
                ctx.violation("messages-of-the-old-link-duplicated-or-reordered", {**wit, "delivered": [hex(x) for x in got_old]})
            elif how == "peer_close" and got_new != want_new and rig.state == "CONNECTED_SELECTED":
                # (after disable + enable what was received before the Select.rsp is the session model's business: C05)
                kind = "lost" if len(set(got_new)) < n else "duplicated" if len(got_new) > n else "reordered"
                ctx.violation(f"messages-of-the-new-link-{kind}:handler-still-running-when-the-link-came-back",
                              {**wit, "sent": [hex(x) for x in want_new][:10], "delivered": [hex(x) for x in got_new][:10]})
        finally:
            release.set()
            rig.close(5.0)
            for t in vtime.pending(owner=rig.protocol):
                t.cancel()


def run(ctx):
    vtime.install()
    _busy_handler_across_reconnect(ctx, 6 if ctx.quick else 150)
    _handler_after_reenable(ctx, 3 if ctx.quick else 60)
    inj = sched.YieldInjector(["secsgem/common/protocol.py", "secsgem/common/protocol_dispatcher.py", "secsgem/hsms/protocol.py",
                               "secsgem/common/byte_queue.py", "secsgem/common/block_send_info.py"])
    inj.install()
    sigs = set()
    try:
        for i in range(14 if ctx.quick else 500):
            s = _history(ctx, inj, i)
            if s:
                sigs.add(s)
        ctx.count("interleaving.distinct_signatures", len(sigs))
    finally:
        inj.uninstall()
    inj2 = sched.YieldInjector(["secsgem/common/protocol.py", "secsgem/common/protocol_dispatcher.py", "secsgem/secsi/protocol.py",
                                "secsgem/common/byte_queue.py", "secsgem/common/block_send_info.py"])
    inj2.install()
    sigs2 = set()
    try:
        for i in range(10 if ctx.quick else 400):
            sg = _secsi_history(ctx, inj2, i)
            if sg:
                sigs2.add(sg)
        ctx.count("secsi.distinct_signatures", len(sigs2))
    finally:
        inj2.uninstall()
