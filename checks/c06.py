"""C06 - replies reach exactly their requester; other messages are delivered once, in order, one at a time.

History checker: several application threads issue tagged requests through the real HsmsProtocol while a
scripted peer answers in various orders (immediately, reversed, permuted, dropped, late, twice) and injects
bursts of unsolicited primaries; the link is closed and re-established between rounds. Seeded yield injection
on the protocol files perturbs the schedule. Unique tags make the history unambiguous.
"""

from __future__ import annotations

import itertools
import queue
import threading
import time

from lib import e5ref, sched, stuck, vtime, wire

PROPERTY = "C06"
LEVEL = "exploration"
RULE = ("histories of 2-8 requester threads x 1-6 tagged S2F25 requests against a scripted peer (reply policies: immediate, "
        "reversed batch, random permutation, drop, late after T3, duplicate) interleaved with bursts of up to 30 unsolicited "
        "primaries, over 1-5 close/reconnect/select cycles, under seeded yield injection; distinct by interleaving signature "
        "and policy; non-trivial when at least two requests were outstanding simultaneously")
ASSUMPTIONS = ["a reply that arrives after its requester timed out may be handed to the application as an ordinary message or be "
               "discarded; it must only never reach another requester", "wrap-around of the 32-bit transaction counter is not reached"]
LEVEL_TEXT = ("Runtime history checking (unique tags, linear-time) of the real request/reply routing and delivery path under "
              "concurrent callers, hostile reply orders, reconnects and injected yields; interleavings are sampled and counted.")
LEVEL_NOTE = "Schedules sampled with seeded yield injection; distinct interleaving signatures are reported, not all are explored."
TECHNIQUE = "offline history checker over recorded call/return/wire events under concurrent workload + yield injection"
SHARDS = {"quick": 8, "thorough": 16}
TIMEOUT = {"quick": 400, "thorough": 3400}
FLOORS = {"histories.with_overlapping_requests": 50, "oracle.requests_checked": 500, "oracle.unsolicited_checked": 1000,
          "reconnect.cycles": 10, "interleaving.distinct_signatures": 20}

UNSOL_BASE = 0x70000000


class Peer:
    """Scripted remote entity: parses outbound frames incrementally and answers according to a policy."""

    def __init__(self, rig, rng, policy, t3):
        self.rig = rig
        self.rng = rng
        self.policy = policy
        self.t3 = t3
        self.buf = bytearray()
        self.lock = threading.Lock()
        self.requests = []        # (clock, generation, system, tag)
        self.pending = []         # requests not yet answered
        self.replies = []         # (serial, system, tag, when, in_time)
        self.serial = itertools.count(1)
        self.clock = itertools.count(1)
        self.q = queue.Queue()
        self.stop = False
        self.unsol_sent = []      # systems in injection order
        self.unsol_seq = itertools.count(0)
        self.link_lock = threading.Lock()   # serialises injections with the harness closing the link
        self.paused = False
        rig.pipe.on_send = self._on_send
        self.thread = threading.Thread(target=stuck.harness_thread(self._run), daemon=True, name="harness-peer")
        self.thread.start()

    def reset_link(self):
        with self.lock:
            self.buf = bytearray()

    def _on_send(self, data, gen):
        with self.lock:
            self.buf += data
            frames, rest = wire.parse_hsms_stream(bytes(self.buf))
            self.buf = bytearray(rest)
        for f in frames:
            if f.stype == wire.DATA and (f.stream, f.function) == (2, 25):
                try:
                    tag = bytes(e5ref.decode_all(f.body)[1])
                except Exception:
                    tag = b"?"
                rec = (next(self.clock), gen, f.system, tag, time.monotonic())
                with self.lock:
                    self.requests.append(rec)
                self.q.put(rec)

    def reply_frame(self, system, tag):
        serial = next(self.serial)
        body = e5ref.encode(("B", tag + serial.to_bytes(4, "big")))
        return serial, wire.hsms_data(2, 26, False, system, body)

    def answer(self, rec, late=False):
        _, gen, system, tag, seen = rec
        serial, frame = self.reply_frame(system, tag)
        with self.link_lock:
            if gen != self.rig.pipe.generation or not self.rig.pipe.link_up or self.paused:
                return
            with self.lock:
                self.replies.append({"serial": serial, "system": system, "tag": tag, "late": late,
                                     "delay": time.monotonic() - seen})
            self.rig.pipe.feed(frame)

    def inject_unsolicited(self, n):
        from checks.c04 import _header_only
        ho = _header_only()
        for _ in range(n):
            with self.link_lock:
                if self.paused or not self.rig.pipe.link_up:
                    return
                system = UNSOL_BASE + next(self.unsol_seq)
                s, f = self.rng.choice(ho)
                with self.lock:
                    self.unsol_sent.append(system)
                self.rig.pipe.feed(wire.hsms_data(s, f, False, system, self.rng.randbytes(self.rng.choice([0, 3]))))

    def _run(self):
        rng = self.rng
        batch = []
        while not self.stop:
            try:
                rec = self.q.get(timeout=0.03)
            except queue.Empty:
                rec = None
            pol = self.policy
            if rec is not None:
                if rng.random() < 0.3:
                    self.inject_unsolicited(rng.randint(1, 6))
                if pol == "immediate":
                    self.answer(rec)
                elif pol == "twice":
                    self.answer(rec)
                    self.answer(rec)
                elif pol == "drop":
                    if rng.random() < 0.5:
                        self.answer(rec)
                elif pol == "late":
                    if rng.random() < 0.5:
                        threading.Thread(target=stuck.harness_thread(self._late), args=(rec,), daemon=True).start()
                    else:
                        self.answer(rec)
                else:
                    batch.append(rec)
            if batch and (rec is None or len(batch) >= 4):
                if pol == "reverse":
                    batch.reverse()
                else:
                    rng.shuffle(batch)
                for r in batch:
                    self.answer(r)
                batch = []

    def _late(self, rec):
        time.sleep(self.t3 + 0.15)
        self.answer(rec, late=True)


def _count_unsol(rig, peer):
    mine = set(peer.unsol_sent)
    return sum(1 for m in list(rig.delivered) if m["system"] in mine)


def _history(ctx, inj, idx):
    from lib.hsmsrig import Rig
    import secsgem.secs.functions as F

    rng = ctx.rng
    policy = rng.choice(["immediate", "reverse", "random", "drop", "late", "twice"])
    t3 = 0.2 if policy in ("late", "drop") else 6.0
    rig = Rig(active=False, t3=t3)
    _history.last_rig = rig
    rig.message_hook = lambda rec: time.sleep(0.0004) if UNSOL_BASE <= rec["system"] < UNSOL_BASE + 100000 else None
    if not rig.connect_and_select():
        ctx.violation("cannot-select", {"state": rig.state})
        return
    peer = Peer(rig, rng, policy, t3)
    nthreads = rng.randint(2, 8)
    nreq = rng.randint(1, 6 if policy not in ("late", "drop") else 3)
    cycles = rng.choice([1, 1, 2, 3, 5]) if policy not in ("late",) else 1
    calls = []            # dicts: tag, thread, call_clock, ret_clock, result
    calls_lock = threading.Lock()
    clock = itertools.count(1)
    tagc = itertools.count(1)
    seed = rng.getrandbits(32)
    inj.begin(seed, p=rng.choice([0.05, 0.15, 0.3]), slow=("harness-requester",) if rng.random() < 0.35 else ())
    max_outstanding = [0]
    outstanding = [0]

    def requester(tid):
        stuck.register_harness_thread()
        for _ in range(nreq):
            tag = b"T" + tid.to_bytes(2, "big") + next(tagc).to_bytes(5, "big")
            rec = {"tag": tag, "thread": tid, "call": next(clock), "generation": rig.pipe.generation}
            with calls_lock:
                calls.append(rec)
                outstanding[0] += 1
                max_outstanding[0] = max(max_outstanding[0], outstanding[0])
            try:
                res = rig.protocol.send_and_waitfor_response(F.SecsS02F25(tag))
                if res is None:
                    rec["result"] = None
                else:
                    rec["result"] = {"system": res.header.system, "stream": res.header.stream, "function": res.header.function,
                                     "body": bytes(res.data)}
            except Exception as exc:
                rec["exception"] = repr(exc)
            rec["ret"] = next(clock)
            with calls_lock:
                outstanding[0] -= 1

    boundaries = []
    for cyc in range(cycles):
        ths = [threading.Thread(target=requester, args=(i,), daemon=True, name=f"harness-requester-{i}") for i in range(nthreads)]
        for t in ths:
            t.start()
        peer.inject_unsolicited(rng.randint(0, 30))
        deadline = time.monotonic() + 30
        for t in ths:
            t.join(max(0.1, deadline - time.monotonic()))
        if any(t.is_alive() for t in ths):
            if stuck.blocked_forever([t for t in ths if t.is_alive()], watch=0.6):
                ctx.violation("requester-blocked-forever", {"policy": policy, "stacks": stuck.stacks()})
            else:
                ctx.unsure("requesters did not finish within 30 s")
            inj.end()
            return
        peer.inject_unsolicited(rng.randint(0, 10))
        with peer.link_lock:
            peer.paused = True   # nothing more is put on the wire before the link is closed / the history ends
        rig.wait(lambda: _count_unsol(rig, peer) >= len(peer.unsol_sent), 5.0)
        boundaries.append((len(peer.unsol_sent), _count_unsol(rig, peer)))
        if cyc < cycles - 1:
            rig.pipe.peer_close()
            if not rig.pipe.wait_closed(5.0):
                ctx.count("close_sequence_did_not_finish")
                inj.end()
                return
            peer.reset_link()
            ctx.count("reconnect.cycles")
            if not rig.connect_and_select(system=0x1000 + cyc + 1):
                ctx.violation("cannot-select-after-reconnect", {"state": rig.state, "cycle": cyc})
                inj.end()
                return
            peer.paused = False
    rig.quiesce(3.0)
    sig, yields, events = inj.end()
    peer.stop = True
    ctx.count("yields_injected", yields)
    ctx.maximum("max_concurrent_requests", max_outstanding[0])
    if max_outstanding[0] >= 2:
        ctx.count("histories.with_overlapping_requests")
    ctx.case(("hist", policy, sig), nontrivial=max_outstanding[0] >= 2)
    base = {"policy": policy, "threads": nthreads, "requests_per_thread": nreq, "cycles": cycles, "schedule_seed": seed}
    if idx == 0:
        ctx.sample({**base, "requests": len(calls), "unsolicited": len(peer.unsol_sent), "interleaving_signature": sig})

    # ---- history checks
    by_tag = {r[3]: r for r in peer.requests}
    # (1) distinct system bytes per link generation
    seen_sys = {}
    for clk, gen, system, tag, _ in peer.requests:
        key = (gen, system)
        if key in seen_sys and seen_sys[key] != tag:
            ctx.violation("duplicate-system-bytes-among-outstanding-requests", {**base, "system": system, "tags": [seen_sys[key].hex(), tag.hex()]})
        seen_sys[key] = tag
    replies_by_serial = {r["serial"]: r for r in peer.replies}
    used_serials = {}
    for c in calls:
        ctx.count("oracle.requests_checked")
        if "exception" in c:
            ctx.violation("request-raises", {**base, "error": c["exception"]})
            continue
        req = by_tag.get(c["tag"])
        res = c.get("result")
        if res is not None:
            try:
                payload = bytes(e5ref.decode_all(res["body"])[1])
            except Exception:
                payload = b""
            rtag, serial = payload[:-4], int.from_bytes(payload[-4:], "big") if len(payload) >= 4 else -1
            if req is None or res["system"] != req[2] or rtag != c["tag"] or (res["stream"], res["function"]) != (2, 26):
                ctx.violation("caller-received-foreign-reply", {**base, "own_tag": c["tag"].hex(), "own_system": req[2] if req else None,
                                                               "reply_system": res["system"], "reply_tag": rtag.hex()})
            if serial in used_serials:
                ctx.violation("one-reply-returned-to-two-callers", {**base, "serial": serial, "tags": [used_serials[serial].hex(), c["tag"].hex()]})
            used_serials[serial] = c["tag"]
        else:
            # a timely reply must have been returned
            mine = [r for r in peer.replies if r["tag"] == c["tag"] and not r["late"]]
            if mine and t3 >= 5.0 and mine[0]["delay"] < 1.0 and req is not None and req[1] == c["generation"]:
                ctx.violation("timely-reply-not-returned-to-requester", {**base, "tag": c["tag"].hex(), "reply_delay_s": round(mine[0]["delay"], 4)})
    # (4) unsolicited primaries: exactly once, in arrival order, never overlapping
    mine_unsol = set(peer.unsol_sent)
    got = [m["system"] for m in rig.delivered if m["system"] in mine_unsol]
    ctx.count("oracle.unsolicited_checked", len(peer.unsol_sent))
    if got != peer.unsol_sent:
        rig.confirm_absent(lambda: _count_unsol(rig, peer) >= len(peer.unsol_sent), 0.5)
        got = [m["system"] for m in rig.delivered if m["system"] in mine_unsol]
    if got != peer.unsol_sent:
        missing = [s for s in peer.unsol_sent if s not in got]
        dup = sorted({s for s in got if got.count(s) > 1})
        kind = "lost" if missing else "duplicated" if dup else "reordered"
        ctx.violation(f"unsolicited-messages-{kind}", {**base, "sent": len(peer.unsol_sent), "delivered": len(got),
                                                       "state": rig.state, "link_up": rig.pipe.link_up, "sent_vs_delivered_at_each_cycle_end": boundaries,
                                                       "missing_positions": [peer.unsol_sent.index(s) for s in missing[:8]],
                                                       "log_tail": [(e[1], (hex(e[2]["system"]) if isinstance(e[2], dict) else None)) for e in rig.log[-8:]],
                                                       "missing": [hex(s) for s in missing[:5]], "duplicates": [hex(s) for s in dup[:5]],
                                                       "first_difference": next((i for i, (a, b) in enumerate(zip(got, peer.unsol_sent)) if a != b), None)})
    if rig.max_in_callback > 1:
        ctx.violation("message-callbacks-overlap", {**base, "max_concurrent_callbacks": rig.max_in_callback,
                                                    "delivering_threads": len(rig.callback_threads)})
    rig.close(5.0)
    for t in vtime.pending(owner=rig.protocol):
        t.cancel()
    return sig


def run(ctx):
    vtime.install()
    inj = sched.YieldInjector(["secsgem/common/protocol.py", "secsgem/common/protocol_dispatcher.py", "secsgem/hsms/protocol.py",
                               "secsgem/common/byte_queue.py", "secsgem/common/block_send_info.py"])
    inj.install()
    sigs = set()
    try:
        for i in range(14 if ctx.quick else 500):
            s = _history(ctx, inj, i)
            if s:
                sigs.add(s)
        ctx.count("interleaving.distinct_signatures", len(sigs))
    finally:
        inj.uninstall()
