"""Idle detection and the 'blocked forever' oracle by stack sampling (sys._current_frames)."""

from __future__ import annotations

import os
import sys
import threading
import time
import traceback

import weakref

# Thread *objects* (idents are recycled by the OS: a new secsgem thread may reuse a dead harness thread's ident)
_harness_threads: "weakref.WeakSet[threading.Thread]" = weakref.WeakSet()
_lock = threading.Lock()


def register_harness_thread(thread=None):
    with _lock:
        _harness_threads.add(thread if thread is not None else threading.current_thread())


def _harness_idents():
    with _lock:
        return {t.ident for t in _harness_threads if t.is_alive()}


def harness_thread(fn):
    """Decorator for thread targets that belong to the harness' own bookkeeping."""
    def wrapper(*a, **kw):
        register_harness_thread()
        return fn(*a, **kw)
    return wrapper


def _classify(frame):
    """Return (kind, key): kind in untimed / timed / running; key identifies where the thread is.

    A thread blocked in Condition.wait / Event.wait / Queue.get / Thread.join has threading.py's `wait` or
    `_wait_for_tstate_lock` as innermost Python frame (the lock acquire itself is a C call); its `timeout`
    local tells timed from untimed.  Anything else (including time.sleep and busy loops) is "running".
    """
    code = frame.f_code
    key = (id(code), frame.f_lineno, frame.f_lasti)
    if code.co_filename.endswith("threading.py"):
        if code.co_name == "wait":
            # Thread.start() waits for the new thread to report that it runs: that thread has no frame yet and is invisible
            # to the sampler, but it is about to run - the starter is not parked, a step is in progress
            up = frame.f_back.f_back if frame.f_back is not None else None
            if up is not None and up.f_code.co_name == "start" and up.f_code.co_filename.endswith("threading.py"):
                return "running", key
            return ("untimed" if frame.f_locals.get("timeout", None) is None else "timed"), key
        if code.co_name == "_wait_for_tstate_lock":
            t = frame.f_locals.get("timeout", -1)
            return ("untimed" if t is None or t == -1 else "timed"), key
    return "running", key


def snapshot(exclude_harness=True):
    """{ident: (name, kind, key)} for all live threads except the harness' own."""
    frames = sys._current_frames()
    names = {t.ident: t.name for t in threading.enumerate()}
    me = threading.get_ident()
    hidden = _harness_idents() if exclude_harness else set()
    out = {}
    for ident, frame in frames.items():
        if ident == me:
            continue
        if ident in hidden:
            continue
        if ident not in names:
            continue
        kind, key = _classify(frame)
        out[ident] = (names[ident], kind, key)
    return out


def wait_idle(activity=None, timeout=10.0, settle=0.002, samples=2, ignore=()):
    """Wait until every non-harness thread is parked in a threading/queue wait in `samples` consecutive samples
    and the activity counter (callable) did not move in between. Returns True if idle, False on timeout."""
    deadline = time.monotonic() + timeout
    prev = None
    stable = 0
    while time.monotonic() < deadline:
        snap = snapshot()
        act = activity() if activity else None
        idle = all(kind != "running" for ident, (name, kind, key) in snap.items() if name not in ignore)
        cur = (act, tuple(sorted((i, k) for i, (n, kd, k) in snap.items())))
        if idle and cur == prev:
            stable += 1
            if stable >= samples - 1:
                return True
        else:
            stable = 0
        prev = cur if idle else None
        time.sleep(settle)
    return False


def patience(seconds, cap=8.0):
    """A real-time allowance scaled with the load of the machine (1-minute load average per core, doubled; between 1 and `cap`).

    Used only for waits that end early when the awaited thing happens, so on a healthy tree and an idle machine it costs
    nothing; on an overloaded machine it keeps 'too slow' from being reported as 'never'."""
    try:
        factor = 2.0 * os.getloadavg()[0] / (os.cpu_count() or 1)
    except OSError:
        factor = 1.0
    return seconds * max(1.0, min(cap, factor))


class _Canary:
    """A harness thread that answers pings: one round trip takes as long as the OS (and the GIL) currently need to run a thread
    that was just woken.  Idle detection uses it to scale its patience with the load of the machine: a library thread woken by
    Event.set / Queue.put looks parked until it is scheduled, and on a busy machine that can exceed any fixed grace period."""

    def __init__(self):
        self.req = threading.Event()
        self.ack = threading.Event()
        self.lock = threading.Lock()
        self.thread = None

    def _run(self):
        register_harness_thread()
        while True:
            self.req.wait()
            self.req.clear()
            self.ack.set()

    def roundtrips(self, n=3, cap=1.0):
        with self.lock:
            if self.thread is None or not self.thread.is_alive():
                self.thread = threading.Thread(target=self._run, daemon=True, name="harness-canary")
                register_harness_thread(self.thread)
                self.thread.start()
            t0 = time.monotonic()
            for _ in range(n):
                self.ack.clear()
                self.req.set()
                self.ack.wait(cap)
            return time.monotonic() - t0


_canary = _Canary()


def scheduler_roundtrips(n=3, cap=1.0):
    """Wake a parked harness thread n times and wait for it each time; returns the seconds that took."""
    return _canary.roundtrips(n, cap)


def blocked_forever(threads, watch=1.0, samples=5):
    """True if each given thread stays parked in the *same untimed* wait over `samples` samples spanning `watch`
    seconds AND no other non-harness thread is running or in a timed wait (nobody left who could wake it)."""
    idents = {t.ident for t in threads if t.is_alive()}
    if not idents:
        return False
    first = None
    for i in range(samples):
        snap = snapshot()
        everyone = snapshot(exclude_harness=False)
        for ident in idents:
            if ident in everyone:
                snap[ident] = everyone[ident]
        for ident in idents:
            if ident not in snap:
                return False
            if snap[ident][1] != "untimed":
                return False
        for ident, (name, kind, key) in snap.items():
            if kind != "untimed":
                return False  # somebody may still make progress (running or timed wait)
        sig = {i2: snap[i2][2] for i2 in snap}
        if first is None:
            first = sig
        elif any(first.get(k) != v for k, v in sig.items()) or set(first) != set(sig):
            return False
        time.sleep(watch / samples)
    return True


def stacks(limit=12):
    """Readable stacks of all non-harness threads (for witnesses)."""
    frames = sys._current_frames()
    names = {t.ident: t.name for t in threading.enumerate()}
    out = {}
    hidden = _harness_idents()
    for ident, frame in frames.items():
        if ident in hidden or ident == threading.get_ident():
            continue
        out[names.get(ident, str(ident))] = [f"{fs.filename.split('/')[-1]}:{fs.lineno} {fs.name}"
                                              for fs in traceback.extract_stack(frame)[-limit:]]
    return out
