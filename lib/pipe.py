"""In-memory Connection that reproduces the observable contract of secsgem's TcpConnection.

* on_connected is fired from a connection-owned thread after the receiver thread was started (data may be
  delivered while the on_connected handler is still running);
* on_data is fired from the connection's receiver thread, one call per delivered segment;
* peer close: receiver thread fires on_disconnecting -> (link closed) -> on_disconnected, `disconnecting` False;
* local disable(): `disconnecting` is True while those handlers run and the caller of disable() waits for them.

It is supplied to the protocol through the public Settings.create_connection() override.
"""

from __future__ import annotations

import itertools
import queue
import threading
import time

import secsgem.common
import secsgem.hsms

from . import stuck, wire

_CLOSE = object()
_WAKE = object()
_clock = itertools.count(1)


class PipeConnection(secsgem.common.Connection):
    def __init__(self, settings, label="pipe"):
        super().__init__(settings)
        self.label = label
        self.enabled = False
        self._open = False
        self._inbox: queue.Queue = queue.Queue()
        self._rx_thread = None
        self._thread_running = False
        self._stop = False
        self.generation = 0
        self.sent = bytearray()            # bytes written by the protocol on the current link generation
        self.sent_log = []                 # (clock, generation, bytes) of every send_data call
        self.events = []                   # (clock, kind) connection-level trace
        self.activity = 0                  # bumped on every observable action (for idle detection)
        self._lock = threading.Lock()
        self.on_send = None                # optional forwarder(data, generation) used by Link
        self.on_enable = None
        self.on_disable = None
        self.fail_sends = False            # make send_data report failure (peer gone)
        self.handler_errors = []
        self._f_gen, self._f_pos, self._f_cache = -1, 0, []
        self._a_idx, self._a_buf, self._a_cache = 0, {}, []

    # ------------------------------------------------------------- Connection API (used by secsgem)
    def enable(self):
        self.enabled = True
        self._note("enable")
        if self.on_enable:
            self.on_enable(self)

    def disable(self):
        self.enabled = False
        self._note("disable")
        if self.on_disable:
            self.on_disable(self)
        self.disconnect()

    def send_data(self, data: bytes) -> bool:
        with self._lock:
            if not self._open or self.fail_sends:
                self.activity += 1
                return False
            data = bytes(data)
            self.sent += data
            self.sent_log.append((next(_clock), self.generation, data))
            self.activity += 1
            gen = self.generation
        if self.on_send:
            self.on_send(data, gen)
        return True

    def disconnect(self):
        """Local close (as TcpConnection.disconnect): waits for the close sequence to finish."""
        if not self._thread_running:
            return
        self._disconnecting = True
        self._stop = True
        self._inbox.put(_WAKE)
        while self._thread_running:       # the real class busy-waits here without a timeout
            time.sleep(0.0005)
        self._disconnecting = False

    # ------------------------------------------------------------- harness side
    def _note(self, kind):
        with self._lock:
            self.events.append((next(_clock), kind))
            self.activity += 1

    def connect(self, wait=True, timeout=10.0):
        """The transport-level connection is established (accept / connect succeeded)."""
        assert not self._thread_running, "already connected"
        with self._lock:
            self.generation += 1
            self.sent = bytearray()
        self._inbox = queue.Queue()
        self._stop = False
        self._connected = True
        self._open = True
        self._thread_running = True
        self._rx_thread = threading.Thread(target=self._receiver, name=f"secsgem_pipeConnection_receiver_{self.label}", daemon=True)
        self._rx_thread.start()
        self._note("connected")
        th = threading.Thread(target=self._fire_connected, name=f"secsgem_pipeConnection_connectThread_{self.label}", daemon=True)
        th.start()
        if wait:
            th.join(timeout)
        return th

    def _fire_connected(self):
        try:
            self.on_connected({"source": self})
        except Exception as exc:  # the real classes log and ignore
            self.handler_errors.append(("on_connected", repr(exc)))

    def feed(self, data: bytes):
        """A segment arrives from the peer."""
        self._inbox.put(bytes(data))

    def peer_close(self):
        """The peer closes the connection (EOF)."""
        self._inbox.put(_CLOSE)

    def _receiver(self):
        while not self._stop:
            item = self._inbox.get()
            if item is _WAKE:
                continue
            if item is _CLOSE:
                self._connected = False
                break
            if self._stop:
                break
            with self._lock:
                self.activity += 1
            try:
                self.on_data({"source": self, "data": item})
            except Exception as exc:  # real class: logged, then the connection is torn down
                self.handler_errors.append(("on_data", repr(exc)))
                break
        self._note("disconnecting")
        try:
            self.on_disconnecting({"source": self})
        except Exception as exc:
            self.handler_errors.append(("on_disconnecting", repr(exc)))
        self._open = False
        self._note("closed")
        try:
            self.on_disconnected({"source": self})
        except Exception as exc:
            self.handler_errors.append(("on_disconnected", repr(exc)))
        self._connected = False
        self._note("disconnected")
        self._thread_running = False
        self._stop = False

    @property
    def link_up(self):
        return self._thread_running

    def inbox_empty(self):
        return self._inbox.empty()

    def frames(self):
        """HSMS frames written on the current link generation (complete ones). Parsed incrementally: checks poll this."""
        with self._lock:
            if self._f_gen != self.generation or self._f_pos > len(self.sent):
                self._f_gen, self._f_pos, self._f_cache = self.generation, 0, []
            data = bytes(self.sent[self._f_pos:])
            if data:
                new, rest = wire.parse_hsms_stream(data)
                self._f_pos += len(data) - len(rest)
                self._f_cache.extend(new)
            return list(self._f_cache)

    def all_frames(self):
        """(generation, Frame) for every complete frame ever written, per generation (incremental as well)."""
        with self._lock:
            log = self.sent_log[self._a_idx:]
            self._a_idx = len(self.sent_log)
            for _, g, d in log:
                buf = self._a_buf.get(g, b"") + d
                frs, rest = wire.parse_hsms_stream(buf)
                self._a_buf[g] = rest
                self._a_cache.extend((g, fr) for fr in frs)
            return list(self._a_cache)

    def wait_for(self, predicate, timeout=5.0, poll=0.0005):
        deadline = time.monotonic() + timeout
        while time.monotonic() < deadline:
            if predicate():
                return True
            time.sleep(poll)
        return predicate()

    def wait_closed(self, timeout=5.0):
        return self.wait_for(lambda: not self._thread_running, timeout)


class PipeHsmsSettings(secsgem.hsms.HsmsSettings):
    """HsmsSettings whose connection is the in-memory pipe (public create_connection override)."""

    def __init__(self, **kwargs):
        super().__init__(**kwargs)
        self.pipe = None

    def create_connection(self):
        # idempotent: a harness may create the connection first (to wire a Link) and the protocol picks up the same object
        if self.pipe is None:
            self.pipe = PipeConnection(self, label=f"{self.address}:{self.port}")
        return self.pipe


def quiesce(pipe, timeout=10.0, extra_activity=None):
    """Wait until nothing moves: inbox drained, all non-harness threads parked, counters stable.

    Idleness must persist over several samples spanning >= 40 ms (a thread that was just woken by Event.set still
    looks parked until the OS schedules it)."""
    def activity():
        return (pipe.activity, pipe.inbox_empty(), extra_activity() if extra_activity else None)

    deadline = time.monotonic() + timeout
    while time.monotonic() < deadline:
        if not pipe.inbox_empty():
            time.sleep(0.0005)
            continue
        if stuck.wait_idle(activity, timeout=max(0.01, min(0.05, deadline - time.monotonic())), settle=0.002, samples=3):
            if stuck.wait_idle(activity, timeout=max(0.05, min(0.3, deadline - time.monotonic())), settle=0.008, samples=6):
                if pipe.inbox_empty():
                    # patience that scales with the load of the machine: let a parked harness thread be woken a few times; a
                    # library thread that was woken before this point gets the processor in about the same time
                    before = activity()
                    took = stuck.scheduler_roundtrips(3)
                    if took < 0.005 and activity() == before:
                        return True
                    if stuck.wait_idle(activity, timeout=max(0.05, min(0.3 + 4 * took, deadline - time.monotonic())), settle=0.008, samples=4) \
                            and activity() == before and pipe.inbox_empty():
                        return True
    return False
