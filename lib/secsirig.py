"""Rig: a real SecsIProtocol over the in-memory connection with a scripted line peer."""

from __future__ import annotations

import itertools
import logging
import threading
import time

import secsgem.common
import secsgem.secsi

from . import pipe as pipemod
from . import stuck, wire

logging.disable(logging.CRITICAL)
_port = itertools.count(1)


class PipeSecsISettings(secsgem.secsi.SecsISettings):
    def __init__(self, **kwargs):
        super().__init__(**kwargs)
        self.pipe = None

    def create_connection(self):
        self.pipe = pipemod.PipeConnection(self, label=f"secsi-{self.port}")
        return self.pipe


class SecsIRig:
    def __init__(self, device_type=secsgem.common.DeviceType.EQUIPMENT, device_id=0, **kw):
        self.settings = PipeSecsISettings(port=f"VPIPE{next(_port)}", device_type=device_type, device_id=device_id, **kw)
        self.protocol = self.settings.create_protocol()
        self.lock = threading.Lock()
        self.delivered = []
        self.protocol.events.message_received += self._on_message
        self.protocol.enable()
        self.pipe = self.settings.pipe
        self.pipe.connect()
        self.consumed = 0   # bytes of pipe.sent already interpreted by the scripted peer

    def _on_message(self, data):
        msg = data["message"]
        h = msg.header
        with self.lock:
            self.delivered.append({"system": h.system, "device_id": h.device_id, "rbit": h.from_equipment, "wbit": h.require_response,
                                   "stream": h.stream, "function": h.function, "block": h.block, "ebit": h.last_block,
                                   "body": bytes(msg.data), "nblocks": len(msg.blocks)})

    def activity(self):
        return (self.pipe.activity, len(self.delivered))

    def wait(self, predicate, timeout=5.0, min_idle=0.4):
        """Wait until predicate() holds; give up early only when the rig has been idle for `min_idle` seconds without it.

        A thread that was just woken (Event.set) still looks parked until the OS schedules it, and on a loaded machine
        that can take a while: idleness is only believed after it persisted, over many samples, for `min_idle` seconds.
        On a correct tree the predicate normally becomes true within milliseconds, so the patience costs nothing."""
        deadline = time.monotonic() + timeout
        idle_since = None
        while time.monotonic() < deadline:
            if predicate():
                return True
            if self.pipe.inbox_empty() and stuck.wait_idle(self.activity, timeout=0.02, settle=0.002, samples=3):
                now = time.monotonic()
                if idle_since is None:
                    idle_since = now
                elif now - idle_since >= min_idle:
                    return predicate()
            else:
                idle_since = None
            time.sleep(0.001)
        return predicate()

    def confirm_absent(self, predicate, grace=2.0):
        """Pure wall-clock grace before an expected effect is called absent (see hsmsrig.Rig.confirm_absent)."""
        end = time.monotonic() + max(grace, 2.0)
        while time.monotonic() < end:
            if predicate():
                return False
            time.sleep(0.005)
        return not predicate()

    def next_bytes(self, n=1, timeout=5.0):
        """Bytes the SUT wrote that the scripted peer has not consumed yet (waits for at least n)."""
        self.wait(lambda: len(self.pipe.sent) - self.consumed >= n, timeout)
        data = bytes(self.pipe.sent[self.consumed:])
        return data

    def consume(self, n):
        self.consumed += n

    def send_block_to_sut(self, raw: bytes, segs=None, timeout=5.0):
        """Scripted sender: ENQ, wait EOT, block bytes (optionally segmented), wait ACK/NAK. Returns the trace."""
        trace = []
        self.pipe.feed(bytes([wire.ENQ]))
        trace.append(("peer", "ENQ"))
        got = self.next_bytes(1, timeout)
        if not got:
            trace.append(("sut", "nothing"))
            return trace, None
        trace.append(("sut", got[:1].hex()))
        self.consume(1)
        if got[0] != wire.EOT:
            return trace, None
        pos = 0
        for n in (segs or [len(raw)]):
            self.pipe.feed(raw[pos:pos + n])
            pos += n
        trace.append(("peer", f"block[{len(raw)}]"))
        got = self.next_bytes(1, timeout)
        if not got:
            trace.append(("sut", "nothing"))
            return trace, None
        self.consume(1)
        trace.append(("sut", got[:1].hex()))
        return trace, got[0]

    def close(self, timeout=5.0):
        done = threading.Event()

        @stuck.harness_thread
        def run():
            try:
                self.protocol.disable()
            finally:
                done.set()
        threading.Thread(target=run, daemon=True, name="harness-disable").start()
        return done.wait(timeout)
