"""Loopback ports for the real-socket checks: per-worker ranges below the kernel's ephemeral range.

bind(0)+close+reuse races with the other worker processes of the same check (and with the ephemeral source ports of their
outgoing connections): two workers could end up on one port and talk to each other's endpoint. Each worker (shard) gets
its own slice of 10000..32000 instead and probes a port before handing it out."""

from __future__ import annotations

import itertools
import os
import socket

_counter = itertools.count()


def free_port(shard=0, nshards=16):
    width = max(50, 22000 // max(1, nshards))
    base = 10000 + (shard % max(1, nshards)) * width
    start = os.getpid() % width
    for _ in range(width):
        port = base + (start + next(_counter)) % width
        s = socket.socket()
        try:
            s.bind(("127.0.0.1", port))
        except OSError:
            continue
        finally:
            s.close()
        return port
    raise RuntimeError("no free loopback port in this worker's range")
