"""Driver for the runtime-monitoring checks: shard workers, merge results, verdicts, evidence, replays.

A check module (checks/cNN.py) exports

    PROPERTY = "C01"
    LEVEL = "exploration" | "fault_enumeration"
    RULE = "how cases are generated / what makes one distinct and non-trivial"
    ASSUMPTIONS = [...]
    SHARDS = {"quick": 8, "thorough": 16}
    TIMEOUT = {"quick": 300, "thorough": 3600}      # per-worker wall clock watchdog (inconclusive when hit)
    def run(ctx): ...                                 # executes shard ctx.shard of ctx.nshards
    def replay(ctx, witness): ...                     # optional: re-run exactly one recorded case

Verdicts are three-valued: violated (exit 1), held on what was observed (exit 0), inconclusive (exit 2).
"""

from __future__ import annotations

import hashlib
import importlib
import json
import os
import random
import subprocess
import sys
import tempfile
import threading
import time
import traceback

VERIF = os.path.dirname(os.path.dirname(os.path.abspath(__file__)))
REPO = os.environ.get("VERIF_REPO", "/repo")
PY = "/venv/bin/python"
MAX_WITNESS_PER_MECH = 3
MAX_SAMPLES = 12


def jsonable(obj, depth=0):
    """Make witness data JSON serialisable (bytes -> hex, sets -> lists, floats nan/inf -> repr)."""
    if depth > 12:
        return repr(obj)[:200]
    if isinstance(obj, (bytes, bytearray)):
        h = bytes(obj).hex()
        return {"hex": h if len(h) <= 400 else h[:400] + "...", "len": len(obj)}
    if isinstance(obj, float):
        if obj != obj or obj in (float("inf"), float("-inf")):
            return repr(obj)
        return obj
    if isinstance(obj, (str, int, bool)) or obj is None:
        if isinstance(obj, str) and len(obj) > 2000:
            return obj[:2000] + "..."
        return obj
    if isinstance(obj, dict):
        return {str(k): jsonable(v, depth + 1) for k, v in list(obj.items())[:200]}
    if isinstance(obj, (list, tuple, set, frozenset)):
        lst = list(obj)
        out = [jsonable(v, depth + 1) for v in lst[:200]]
        if len(lst) > 200:
            out.append(f"... {len(lst) - 200} more")
        return out
    return repr(obj)[:400]


class StopCheck(BaseException):
    """Raised by Ctx.violation once a worker has recorded enough violations: more of the same adds nothing and a
    broken tree can make every further case run into its time-out."""


MAX_VIOLATIONS_PER_WORKER = 60


class Ctx:
    """Per-worker monitor state. Thread-safe where checks use it from several threads."""

    def __init__(self, prop, tier, seed, shard=0, nshards=1):
        self.prop = prop
        self.tier = tier
        self.seed = seed
        self.shard = shard
        self.nshards = nshards
        self.rng = random.Random(f"{prop}/{tier}/{seed}/{shard}")
        self.evaluations = 0
        self.hashes: set[int] = set()
        self.counters: dict[str, int] = {}
        self.maxima: dict[str, int] = {}
        self.samples: list = []
        self.violations: list[dict] = []
        self.vcount: dict[str, int] = {}
        self.notes: dict[str, object] = {}
        self.exhaustive: dict[str, bool] = {}
        self.inconclusive: list[str] = []
        self._lock = threading.Lock()
        self.t0 = time.time()
        self.first_violation_at = None
        self.known_mechanisms = {f["mechanism"] for f in load_known() if f.get("property") == prop and f.get("status") == "known"}

    @property
    def quick(self):
        return self.tier == "quick"

    def mine(self, index: int) -> bool:
        """Deterministic sharding of an enumerated case index."""
        return index % self.nshards == self.shard

    def case(self, desc, nontrivial=True):
        """Count one evaluated case; `desc` identifies it for the distinct count."""
        with self._lock:
            self.evaluations += 1
            if nontrivial:
                if not isinstance(desc, (bytes, str)):
                    desc = repr(desc)
                if isinstance(desc, str):
                    desc = desc.encode("utf-8", "surrogatepass")
                self.hashes.add(int.from_bytes(hashlib.blake2b(desc, digest_size=8).digest(), "big"))

    def count(self, key, n=1):
        with self._lock:
            self.counters[key] = self.counters.get(key, 0) + n

    def maximum(self, key, value):
        with self._lock:
            if value > self.maxima.get(key, -1):
                self.maxima[key] = value

    def sample(self, obj, cap=4):
        with self._lock:
            if len(self.samples) < cap:
                self.samples.append(jsonable(obj))

    def note(self, key, value):
        self.notes[key] = value

    def violation(self, mechanism: str, witness: dict):
        """Record a violation. `mechanism` is the classifier key matched against known_findings.json."""
        with self._lock:
            self.vcount[mechanism] = self.vcount.get(mechanism, 0) + 1
            if self.vcount[mechanism] <= MAX_WITNESS_PER_MECH:
                self.violations.append({"mechanism": mechanism, "witness": jsonable(witness)})
            total = sum(n for m, n in self.vcount.items() if m not in self.known_mechanisms)
            if mechanism in self.known_mechanisms:
                return
            if self.first_violation_at is None:
                self.first_violation_at = time.time()
            slow = time.time() - self.first_violation_at > 45
        if (total >= MAX_VIOLATIONS_PER_WORKER or slow) and threading.current_thread() is threading.main_thread():
            raise StopCheck()

    def unsure(self, reason: str):
        with self._lock:
            if len(self.inconclusive) < 20:
                self.inconclusive.append(reason)
            many = len(self.inconclusive) >= 8
        if many and threading.current_thread() is threading.main_thread():
            raise StopCheck()

    def dump(self):
        return {
            "evaluations": self.evaluations,
            "hashes": sorted(self.hashes),
            "counters": self.counters,
            "maxima": self.maxima,
            "samples": self.samples,
            "violations": self.violations,
            "vcount": self.vcount,
            "notes": jsonable(self.notes),
            "exhaustive": self.exhaustive,
            "inconclusive": self.inconclusive,
        }


def load_check(prop):
    sys.path.insert(0, VERIF)
    return importlib.import_module(f"checks.{prop.lower()}")


def assert_repo():
    import secsgem

    path = os.path.realpath(secsgem.__file__)
    if not path.startswith(os.path.realpath(REPO) + os.sep):
        print(f"INCONCLUSIVE reason=secsgem imported from {path}, not {REPO}")
        sys.exit(2)


def worker_main(prop, tier, seed, shard, nshards, out):
    import faulthandler
    import signal

    faulthandler.register(signal.SIGUSR1, all_threads=True)   # the parent asks for stacks before a watchdog kill
    mod = load_check(prop)
    assert_repo()
    ctx = Ctx(prop, tier, seed, shard, nshards)
    try:
        mod.run(ctx)
    except StopCheck:
        ctx.count("stopped_early_after_many_violations")
    except BaseException:  # harness failure: never a verdict
        ctx.unsure("worker exception: " + traceback.format_exc()[-1500:])
    with open(out + ".tmp", "w") as fh:
        json.dump(ctx.dump(), fh)
        fh.flush()
        os.fsync(fh.fileno())
    os.replace(out + ".tmp", out)
    sys.stdout.flush()
    sys.stderr.flush()
    # the result is complete: do not let a thread the workload left behind (a non-daemon thread of an endpoint whose
    # disable() was given up on, a blocked socket call) keep the worker alive until the watchdog
    os._exit(0)


def load_known():
    path = os.path.join(VERIF, "known_findings.json")
    if not os.path.exists(path):
        return []
    with open(path) as fh:
        return json.load(fh).get("findings", [])


def main(argv):
    import argparse

    ap = argparse.ArgumentParser()
    ap.add_argument("prop")
    ap.add_argument("tier", nargs="?", default=os.environ.get("VERIF_TIER", "quick"))
    ap.add_argument("--replay")
    ap.add_argument("--shard", type=int)
    ap.add_argument("--nshards", type=int)
    ap.add_argument("--out")
    ap.add_argument("--jobs", type=int, default=int(os.environ.get("VERIF_JOBS", "16")))
    args = ap.parse_args(argv)
    prop = args.prop.upper()
    tier = args.tier
    if tier not in ("quick", "thorough"):
        tier = "quick"
    seed = int(os.environ.get("VERIF_SEED", "0") or 0)

    if args.shard is not None:
        worker_main(prop, tier, seed, args.shard, args.nshards, args.out)
        return 0

    mod = load_check(prop)

    if args.replay:
        with open(args.replay) as fh:
            rep = json.load(fh)
        assert_repo()
        ctx = Ctx(prop, rep.get("tier", tier), rep.get("seed", seed), 0, 1)
        if hasattr(mod, "replay"):
            for v in rep.get("violations", []):
                mod.replay(ctx, v)
        else:
            print("no single-case replay for this check; re-running the recorded tier/seed")
            os.environ["VERIF_SEED"] = str(rep.get("seed", seed))
            return main([prop, rep.get("tier", tier)])
        if ctx.violations:
            for v in ctx.violations:
                print("REPRODUCED", v["mechanism"], json.dumps(v["witness"])[:600])
            print(f"VIOLATION property={prop} replay={args.replay}")
            return 1
        print("not reproduced")
        return 0

    t0 = time.time()
    nshards = mod.SHARDS[tier] if isinstance(mod.SHARDS, dict) else mod.SHARDS
    timeout = mod.TIMEOUT[tier] if isinstance(mod.TIMEOUT, dict) else mod.TIMEOUT
    env = dict(os.environ)
    env["PYTHONPATH"] = REPO + os.pathsep + VERIF
    env["PYTHONDONTWRITEBYTECODE"] = "1"
    env["PYTHONHASHSEED"] = env.get("PYTHONHASHSEED", "0")
    env["VERIF_SEED"] = str(seed)
    tmpdir = tempfile.mkdtemp(prefix=f"verif-{prop}-")
    procs = []
    pending = list(range(nshards))
    running: dict[int, tuple] = {}
    results = {}
    dead = []
    try:
        while pending or running:
            while pending and len(running) < args.jobs:
                k = pending.pop(0)
                out = os.path.join(tmpdir, f"{k}.json")
                log = open(os.path.join(tmpdir, f"{k}.log"), "wb")
                p = subprocess.Popen(
                    [PY, "-X", "faulthandler", os.path.join(VERIF, "check"), prop, tier,
                     "--shard", str(k), "--nshards", str(nshards), "--out", out],
                    env=env, stdout=log, stderr=subprocess.STDOUT, cwd=VERIF,
                )
                running[k] = (p, out, log, time.time())
            time.sleep(0.05)
            for k in list(running):
                p, out, log, started = running[k]
                rc = p.poll()
                if rc is None:
                    if time.time() - started > timeout:
                        import signal

                        try:
                            p.send_signal(signal.SIGUSR1)      # faulthandler dumps every thread's stack into the shard log
                            time.sleep(1.0)
                        except OSError:
                            pass
                        p.kill()
                        p.wait()
                        log.close()
                        try:
                            with open(os.path.join(tmpdir, f"{k}.log"), "rb") as fh:
                                tail = fh.read()[-2500:].decode("utf-8", "replace")
                        except OSError:
                            tail = ""
                        dead.append(f"shard {k} exceeded the {timeout}s watchdog; stacks at that moment: {tail}")
                        del running[k]
                    continue
                log.close()
                del running[k]
                if rc == 0 and os.path.exists(out):
                    with open(out) as fh:
                        results[k] = json.load(fh)
                else:
                    with open(os.path.join(tmpdir, f"{k}.log"), "rb") as fh:
                        tail = fh.read()[-1500:].decode("utf-8", "replace")
                    dead.append(f"shard {k} died rc={rc}: {tail}")
    finally:
        for k in running:
            running[k][0].kill()
        import shutil

        shutil.rmtree(tmpdir, ignore_errors=True)

    # merge
    evaluations = 0
    hashes: set[int] = set()
    counters: dict[str, int] = {}
    maxima: dict[str, int] = {}
    samples: list = []
    violations: list = []
    vcount: dict[str, int] = {}
    notes: dict = {}
    exhaustive: dict = {}
    inconclusive = list(dead)
    for k in sorted(results):
        r = results[k]
        evaluations += r["evaluations"]
        hashes.update(r["hashes"])
        for key, v in r["counters"].items():
            counters[key] = counters.get(key, 0) + v
        for key, v in r["maxima"].items():
            maxima[key] = max(maxima.get(key, -1), v)
        for s in r["samples"]:
            if len(samples) < MAX_SAMPLES:
                samples.append(s)
        for key, v in r["vcount"].items():
            vcount[key] = vcount.get(key, 0) + v
        for v in r["violations"]:
            if sum(1 for x in violations if x["mechanism"] == v["mechanism"]) < MAX_WITNESS_PER_MECH:
                violations.append(v)
        notes.update(r["notes"])
        for key, v in r["exhaustive"].items():
            exhaustive[key] = exhaustive.get(key, True) and v
        inconclusive.extend(r["inconclusive"])

    # floors: a sub-oracle never reached makes the run inconclusive
    floors = getattr(mod, "FLOORS", {})
    if tier in floors and isinstance(floors[tier], dict):
        floors = floors[tier]
    for key, minimum in floors.items():
        if counters.get(key, 0) < minimum:
            inconclusive.append(f"monitor '{key}' observed {counters.get(key, 0)} < floor {minimum}")

    known = [f for f in load_known() if f.get("property") == prop and f.get("status") == "known"]
    known_hit = {}
    fresh = []
    for v in violations:
        match = next((f for f in known if f["mechanism"] == v["mechanism"]), None)
        if match:
            known_hit[v["mechanism"]] = match
        else:
            fresh.append(v)
    fresh_mechs = sorted({v["mechanism"] for v in fresh})

    wall = time.time() - t0
    level = mod.LEVEL
    coverage = {
        "evaluations": evaluations,
        "distinct_nontrivial": len(hashes),
        "rule": mod.RULE,
        "samples": samples or ["(no sample recorded)"],
        "monitor_counters": dict(sorted(counters.items())),
        "monitor_maxima": dict(sorted(maxima.items())),
        "shards": nshards,
        "shards_completed": len(results),
    }
    if exhaustive:
        coverage["exhaustive_suboracles"] = exhaustive
        if getattr(mod, "EXHAUSTIVE_ALL", False) and all(exhaustive.values()):
            coverage["exhaustive"] = True
    coverage.update(notes)
    if known_hit:
        coverage["known_findings_observed"] = {m: vcount.get(m, 0) for m in known_hit}
    evidence = {
        "property_id": prop,
        "tier": tier,
        "seed": seed,
        "level": level,
        "coverage": coverage,
        "assumptions": list(getattr(mod, "ASSUMPTIONS", [])),
        "wall_s": round(wall, 2),
        "violations": sum(vcount.get(m, 0) for m in fresh_mechs),
        "verdict": "violated" if fresh else ("inconclusive" if inconclusive else "held_on_observed"),
    }
    if inconclusive:
        evidence["inconclusive_reasons"] = inconclusive[:10]
    outdir = os.environ.get("VERIF_OUT", VERIF)  # selftests redirect evidence/replays away from /verif
    os.makedirs(os.path.join(outdir, "evidence"), exist_ok=True)
    evpath = os.path.join(outdir, "evidence", f"{prop}.json")
    try:
        import jsonschema

        with open("/root/.vp/EVIDENCE.schema.json") as fh:
            schema = json.load(fh)
        jsonschema.validate(evidence, schema)
    except FileNotFoundError:
        pass
    except ImportError:
        pass
    except Exception as exc:  # schema failure -> make it visible, still write
        print("WARNING evidence does not validate:", str(exc)[:300])
    with open(evpath, "w") as fh:
        json.dump(evidence, fh, indent=1, sort_keys=False)
        fh.write("\n")

    print(f"{prop} {tier} seed={seed}: {evaluations} evaluations, {len(hashes)} distinct non-trivial, "
          f"{len(results)}/{nshards} shards, {wall:.1f}s")
    for key in sorted(counters):
        print(f"  {key}: {counters[key]}")
    for m, f in known_hit.items():
        print(f"KNOWN-FINDING: property={prop} {m}: {f.get('description', '')} (observed {vcount.get(m, 0)}x)")
    if fresh:
        os.makedirs(os.path.join(outdir, "replays"), exist_ok=True)
        digest = hashlib.sha1(json.dumps(fresh, sort_keys=True).encode()).hexdigest()[:10]
        rpath = os.path.join(outdir, "replays", f"{prop}-{digest}.json")
        with open(rpath, "w") as fh:
            json.dump({"property": prop, "tier": tier, "seed": seed, "violations": fresh,
                       "counts": {m: vcount[m] for m in fresh_mechs}}, fh, indent=1)
        for m in fresh_mechs:
            w = next(v for v in fresh if v["mechanism"] == m)
            print(f"  violation mechanism={m} count={vcount[m]} witness={json.dumps(w['witness'])[:500]}")
        print(f"VIOLATION property={prop} replay={rpath}")
        return 1
    if inconclusive:
        for r in inconclusive[:5]:
            print(f"INCONCLUSIVE property={prop} reason={r[:600]}")
        return 2
    return 0
