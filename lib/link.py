"""Link: joins two PipeConnections (one HSMS-active, one HSMS-passive endpoint) like a TCP connection would.

A scheduler thread establishes the transport connection when both sides are enabled, forwards bytes with a seeded
segmentation and latency, and turns a local close of one side into a peer close of the other.
"""

from __future__ import annotations

import random
import threading
import time

from . import stuck


class Link:
    def __init__(self, pipe_active, pipe_passive, seed=0, max_latency=0.002):
        self.a = pipe_active
        self.p = pipe_passive
        self.rng = random.Random(seed)
        self.max_latency = max_latency
        self.lock = threading.Lock()
        self.queue = []            # (dst_pipe, dst_generation, bytes)
        self.connected = False
        self.connections = 0
        self.stop = False
        self.bytes_forwarded = 0
        self.segments = 0
        self.ticks = 0             # completed scheduler iterations (liveness of this thread, see Session.idle)
        self.error = None          # exception that ended the scheduler thread (harness fault, never a verdict)
        self.trace = []            # last scheduler actions
        self.slow_first_response = 0.0   # hold everything sent towards the active side for this long, once per connection
        self.hold_until = {}             # dst pipe -> monotonic time before which nothing is delivered to it
        self.break_after = None          # (dst pipe, k): of the next bytes towards dst only the first k arrive, then the network fails
        self.failures = 0
        self._fail_now = False
        self.a.on_send = lambda data, gen: self._enqueue(self.p, data)
        self.p.on_send = lambda data, gen: self._enqueue(self.a, data)
        self.thread = threading.Thread(target=stuck.harness_thread(self._run), daemon=True, name="harness-link")
        self.thread.start()

    def _enqueue(self, dst, data):
        with self.lock:
            self.queue.append((dst, self.connections, bytes(data)))

    def _flush(self):
        with self.lock:
            items, self.queue = self.queue, []
        keep = []
        for dst, conn, data in items:
            if conn != self.connections or not self.connected:
                continue          # bytes of a connection that no longer exists
            if not dst.link_up or keep or self.hold_until.get(dst, 0) > time.monotonic():
                keep.append((dst, conn, data))   # the peer has not accepted yet / the network is slow: nothing is lost or reordered
                continue
            pos = 0
            n = len(data)
            brk = self.break_after
            if brk is not None and brk[0] is dst:
                # the network fails inside this transmission: a prefix arrives, nothing after it (in either direction)
                self.break_after = None
                k = max(1, min(brk[1], n - 1)) if n > 1 else 0
                if k:
                    dst.feed(data[:k])
                self._fail_now = True
                self.failures += 1
                self._log(f"network failure after {k} of {n} bytes")
                return
            while pos < n:
                r = self.rng.random()
                k = n - pos if r < 0.5 else self.rng.randint(1, min(n - pos, 32)) if r < 0.8 else 1
                dst.feed(data[pos:pos + k])
                pos += k
                self.segments += 1
                if self.rng.random() < 0.2 and self.max_latency:
                    time.sleep(self.rng.random() * self.max_latency)
            self.bytes_forwarded += n
        if keep:
            with self.lock:
                self.queue = keep + self.queue

    def _log(self, what):
        self.trace.append((round(time.monotonic(), 4), what))
        del self.trace[:-40]

    def _run(self):
        try:
            self._loop()
        except BaseException as exc:  # noqa: BLE001 - recorded for the check, which reports a harness fault
            import traceback
            self.error = "".join(traceback.format_exception(exc))[-1500:]

    def _loop(self):
        while not self.stop:
            self.ticks += 1
            self._flush()
            a_up, p_up = self.a.link_up, self.p.link_up
            if self.connected:
                if self._fail_now:
                    self._fail_now = False
                    with self.lock:
                        self.queue = []
                    a_up = False      # (forces the teardown below: both sides see the connection end)
                if not a_up or not p_up:
                    self._flush()
                    self._log(f"teardown a_up={a_up} p_up={p_up}")
                    if self.a.link_up:
                        self.a.peer_close()
                    if self.p.link_up:
                        self.p.peer_close()
                    # wait for both close sequences (bounded; a wedge is the check's business)
                    end = time.monotonic() + 5
                    while time.monotonic() < end and (self.a.link_up or self.p.link_up):
                        time.sleep(0.001)
                    with self.lock:
                        self.queue = []
                    self.connected = False
                    self._log(f"torn down a_up={self.a.link_up} p_up={self.p.link_up}")
            elif self.a.enabled and self.p.enabled and not a_up and not p_up:
                # TCP connect: passive side accepts, active side's connect() returns (order chosen by the seed)
                first, second = (self.p, self.a) if self.rng.random() < 0.5 else (self.a, self.p)
                with self.lock:
                    self.connections += 1
                    self.connected = True
                    self.hold_until = {self.a: time.monotonic() + self.slow_first_response} if self.slow_first_response else {}
                self._log(f"connect #{self.connections} first={'a' if first is self.a else 'p'}")
                first.connect(wait=False)
                if self.rng.random() < 0.5:
                    time.sleep(self.rng.random() * 0.002)
                second.connect(wait=False)
                self._log("connected both")
            time.sleep(0.0005)

    def close(self):
        self.stop = True
