"""Rig: a real HsmsProtocol (or a GEM handler on top of it) over the in-memory PipeConnection, with event spies."""

from __future__ import annotations

import itertools
import logging
import threading
import time

import secsgem.common
import secsgem.hsms

from . import pipe as pipemod
from . import stuck, wire

logging.disable(logging.CRITICAL)  # the library logs every swallowed exception; keep workers quiet
_port = itertools.count(5000)


class Rig:
    """One endpoint under test. `make(settings)` builds the object that owns the protocol (default: the protocol)."""

    def __init__(self, active=False, device_type=None, make=None, **settings_kw):
        mode = secsgem.hsms.HsmsConnectMode.ACTIVE if active else secsgem.hsms.HsmsConnectMode.PASSIVE
        kw = dict(connect_mode=mode, address="127.0.0.1", port=next(_port))
        if device_type is not None:
            kw["device_type"] = device_type
        kw.update(settings_kw)
        self.settings = pipemod.PipeHsmsSettings(**kw)
        self.lock = threading.Lock()
        self.log = []          # (clock-ish index, kind, payload) application-visible events
        self.delivered = []    # message_received payloads
        self.in_callback = 0
        self.max_in_callback = 0
        self.callback_threads = set()
        if make is None:
            self.owner = self.settings.create_protocol()
            self.protocol = self.owner
        else:
            self.owner = make(self.settings)
            self.protocol = self.owner.protocol
        ev = self.protocol.events
        ev.message_received += self._on_message
        ev.connected += lambda d: self._note("connected")
        ev.communicating += lambda d: self._note("communicating")
        ev.disconnected += lambda d: self._note("disconnected")
        self.owner.enable()
        self.pipe = self.settings.pipe
        assert self.pipe is not None, "protocol did not create its connection through settings.create_connection()"

    def _note(self, kind, payload=None):
        with self.lock:
            self.log.append((len(self.log), kind, payload))

    def _on_message(self, data):
        msg = data["message"]
        h = msg.header
        rec = {"system": h.system, "stream": h.stream, "function": h.function, "wbit": h.require_response,
               "session": h.device_id, "body": bytes(msg.data), "thread": threading.get_ident(), "t": time.monotonic()}
        with self.lock:
            self.in_callback += 1
            self.max_in_callback = max(self.max_in_callback, self.in_callback)
            self.callback_threads.add(threading.get_ident())
        try:
            hook = getattr(self, "message_hook", None)
            if hook:
                hook(rec)
        finally:
            with self.lock:
                self.delivered.append(rec)
                self.log.append((len(self.log), "message", rec))
                self.in_callback -= 1

    # -- helpers
    @property
    def state(self):
        return self.protocol.connection_state.current.name

    def activity(self):
        return (self.pipe.activity, len(self.log))

    def quiesce(self, timeout=10.0):
        return pipemod.quiesce(self.pipe, timeout, extra_activity=lambda: len(self.log))

    def wait(self, predicate, timeout=5.0, min_idle=0.4):
        """Wait until predicate() holds; give up early only when the rig has been idle for `min_idle` seconds without it.

        A thread that was just woken (Event.set) still looks parked until the OS schedules it, and on a loaded machine
        that can take a while: idleness is only believed after it persisted, over many samples, for `min_idle` seconds.
        On a correct tree the predicate normally becomes true within milliseconds, so the patience costs nothing."""
        deadline = time.monotonic() + timeout
        idle_since = None
        while time.monotonic() < deadline:
            if predicate():
                return True
            if self.pipe.inbox_empty() and stuck.wait_idle(self.activity, timeout=0.02, settle=0.002, samples=3):
                now = time.monotonic()
                if idle_since is None:
                    idle_since = now
                elif now - idle_since >= min_idle:
                    return predicate()
            else:
                idle_since = None
            time.sleep(0.001)
        return predicate()

    def confirm_absent(self, predicate, grace=0.25):
        """An expected effect is missing: give the system a generous grace period before calling it absent.

        Pure wall-clock polling (no idle shortcut): on a loaded machine a woken thread may not be scheduled for a while.
        Only paid on suspicious cases, so the minimum is deliberately long."""
        end = time.monotonic() + max(grace, 2.0)
        while time.monotonic() < end:
            if predicate():
                return False
            time.sleep(0.005)
        return not predicate()

    def connect_and_select(self, system=0x1000, timeout=5.0):
        """Passive side: transport connects, peer sends Select.req, wait for Select.rsp."""
        self.pipe.connect()
        self.pipe.feed(wire.hsms_control(wire.SELECT_REQ, system))
        ok = self.wait(lambda: any(f.stype == wire.SELECT_RSP and f.system == system for f in self.pipe.frames()), timeout)
        if not ok:
            ok = not self.confirm_absent(lambda: any(f.stype == wire.SELECT_RSP and f.system == system for f in self.pipe.frames()))
        return ok

    def answer_own_select(self, timeout=5.0):
        """Active side: after connect the protocol sends Select.req; answer it."""
        self.pipe.connect()
        if not self.wait(lambda: any(f.stype == wire.SELECT_REQ for f in self.pipe.frames()), timeout):
            return False
        req = next(f for f in self.pipe.frames() if f.stype == wire.SELECT_REQ)
        self.pipe.feed(wire.hsms_control(wire.SELECT_RSP, req.system))
        return self.wait(lambda: self.state == "CONNECTED_SELECTED", timeout)

    def close(self, timeout=5.0):
        """Tear down; returns False if the close sequence did not finish in time."""
        done = threading.Event()

        @stuck.harness_thread
        def run():
            try:
                self.owner.disable()
            finally:
                done.set()
        th = threading.Thread(target=run, daemon=True, name="harness-disable")
        th.start()
        return done.wait(timeout)
