"""Steering of the one random choice secsgem makes: the start value of a protocol's transaction (system bytes) counter.

The library draws it with `random.randint(0, 2**32 - 1)` when a protocol object is built and only counts upwards
afterwards, so the neighbourhood of the 32-bit wrap (and of the 8/16/24/31-bit carries) is unreachable through the API
in bounded time. The start value is an *input* (any value is legal), so the harness chooses it: `random.randint` is
wrapped for the duration of a `with start_near(...)` block and answers exactly that call signature; every other call
passes through. A tree that draws its start value some other way is simply not steered (counted by the caller through
`hits`), which can never raise an alarm."""

from __future__ import annotations

import contextlib
import random
import threading

_lock = threading.Lock()
BOUNDARIES = (2 ** 32 - 1, 2 ** 31 - 1, 2 ** 24 - 1, 2 ** 16 - 1, 2 ** 8 - 1)


def pick(rng, reach=40):
    """A start value from which about `reach` transactions cross a carry (or the wrap) of the counter."""
    b = rng.choice(BOUNDARIES)
    return max(0, b - rng.randint(0, reach))


@contextlib.contextmanager
def start_at(value):
    hits = [0]
    with _lock:
        orig = random.randint

        def steered(a, b):
            if a == 0 and b == 2 ** 32 - 1:
                hits[0] += 1
                return value
            return orig(a, b)
        random.randint = steered
        try:
            yield hits
        finally:
            random.randint = orig
