"""Logical step budget (termination oracle) with sys.monitoring LINE events on selected source files."""

from __future__ import annotations

import sys

TOOL = 3  # sys.monitoring tool id used by the step counter


class StepBudgetExceeded(BaseException):
    """Raised inside the monitored code when the logical step budget is exhausted (BaseException: not swallowed)."""


class StepCounter:
    def __init__(self, path_fragments):
        self.fragments = tuple(path_fragments)
        self.steps = 0
        self.limit = None
        self.active = False
        self._known: dict = {}

    def _line(self, code, lineno):
        ok = self._known.get(code)
        if ok is None:
            fn = code.co_filename
            ok = any(f in fn for f in self.fragments)
            self._known[code] = ok
        if not ok:
            return sys.monitoring.DISABLE
        if self.active:
            self.steps += 1
            if self.limit is not None and self.steps > self.limit:
                self.active = False
                raise StepBudgetExceeded(f"more than {self.limit} line events")
        return None

    def install(self):
        mon = sys.monitoring
        mon.use_tool_id(TOOL, "verif-steps")
        mon.register_callback(TOOL, mon.events.LINE, self._line)
        mon.set_events(TOOL, mon.events.LINE)

    def uninstall(self):
        mon = sys.monitoring
        mon.set_events(TOOL, 0)
        mon.register_callback(TOOL, mon.events.LINE, None)
        mon.free_tool_id(TOOL)

    def run(self, limit, fn, *args):
        """Run fn(*args) under a budget; returns (result, exc, steps)."""
        self.steps = 0
        self.limit = limit
        self.active = True
        try:
            return fn(*args), None, self.steps
        except StepBudgetExceeded as exc:
            return None, exc, self.steps
        except Exception as exc:  # noqa: BLE001 - the monitored code may raise anything
            return None, exc, self.steps
        finally:
            self.active = False
