"""Rig: a real GEM host / equipment handler on a real HsmsProtocol over the in-memory connection, with a scripted peer.

The scripted peer (harness thread) parses every outbound frame, records it, and auto-answers the handler's own
primaries (S1F13, S1F1, S6F11, S5F1, ...) so that handler threads never sit in a reply time-out unless a check
wants them to.
"""

from __future__ import annotations

import threading
import time

import secsgem.common
import secsgem.gem

from . import e5ref, stuck, vtime, wire
from .hsmsrig import Rig

ACK_BODIES = {
    (1, 1): lambda role: e5ref.encode(("L", [])) if role == "equipment" else e5ref.encode(("L", [("A", b"peer"), ("A", b"1.0")])),
    (1, 13): lambda role: e5ref.encode(("L", [("B", b"\x00"), ("L", [] if role == "equipment" else [("A", b"peer"), ("A", b"1.0")])])),
    (6, 11): lambda role: e5ref.encode(("B", b"\x00")),
    (5, 1): lambda role: e5ref.encode(("B", b"\x00")),
    (10, 1): lambda role: e5ref.encode(("B", b"\x00")),
}


class GemRig(Rig):
    """role: 'equipment' or 'host' (the handler under test). The scripted peer plays the opposite role."""

    def __init__(self, role="equipment", active=False, handler_cls=None, handler_kw=None, auto=True, **settings_kw):
        self.role = role
        self.frames_out = []          # every complete outbound frame (generation, Frame, monotonic time)
        self._buf = bytearray()
        self._buf_gen = 0
        self._flock = threading.Lock()
        self.auto = auto              # auto-answer the handler's own primaries
        self.auto_policy = {}         # (S,F) -> callable(frame) -> bytes | None  overrides
        self.own_primaries = []       # frames the handler originated (system not injected by the harness)
        self.injected_systems = set()
        cls = handler_cls or (secsgem.gem.GemEquipmentHandler if role == "equipment" else secsgem.gem.GemHostHandler)
        kw = handler_kw or {}
        dt = secsgem.common.DeviceType.EQUIPMENT if role == "equipment" else secsgem.common.DeviceType.HOST
        self._pre_enable = None
        super().__init__(active=active, device_type=dt, make=lambda s: self._make(cls, s, kw), **settings_kw)
        self.handler = self.owner
        self.pipe.on_send = self._on_send

    def _make(self, cls, settings, kw):
        h = cls(settings, **kw)
        return h

    # ---- outbound frame tap + auto responder
    def _on_send(self, data, gen):
        with self._flock:
            if gen != self._buf_gen:
                self._buf = bytearray()
                self._buf_gen = gen
            self._buf += data
            frames, rest = wire.parse_hsms_stream(bytes(self._buf))
            self._buf = bytearray(rest)
            now = time.monotonic()
            for f in frames:
                self.frames_out.append((gen, f, now))
        for f in frames:
            if f.stype == wire.DATA and f.system not in self.injected_systems and f.function % 2 == 1:
                with self._flock:
                    self.own_primaries.append((gen, f))
                if self.auto and f.wbit:
                    self._auto_answer(f, gen)

    def _auto_answer(self, f, gen):
        key = (f.stream, f.function)
        if key in self.auto_policy:
            body = self.auto_policy[key](f)
            if body is None:
                return
            if isinstance(body, tuple):
                s, fn, body = body
                self.pipe.feed(wire.hsms_data(s, fn, False, f.system, body))
                return
        elif key in ACK_BODIES:
            body = ACK_BODIES[key](self.role)
        else:
            self.pipe.feed(wire.hsms_data(f.stream, 0, False, f.system, b""))
            return
        self.pipe.feed(wire.hsms_data(f.stream, f.function + 1, False, f.system, body))

    def data_frames(self, since=0):
        with self._flock:
            return [(g, f) for g, f, _ in self.frames_out[since:] if f.stype == wire.DATA]

    def n_frames(self):
        with self._flock:
            return len(self.frames_out)

    @property
    def comm_state(self):
        return self.handler.communication_state.current.name

    def establish(self, timeout=5.0):
        """Bring the link to SELECTED and the handler to COMMUNICATING (peer accepts the handler's S1F13)."""
        if self.settings.is_active:
            ok = self.answer_own_select(timeout)
        else:
            ok = self.connect_and_select(timeout=timeout)
        if not ok:
            return False
        # precondition of the checks that use this rig, not an oracle: plain polling, no idle shortcut
        end = time.monotonic() + max(timeout, 10.0)
        while time.monotonic() < end:
            if self.comm_state == "COMMUNICATING":
                return True
            time.sleep(0.002)
        return False

    def inject(self, stream, function, wbit, body, system):
        self.injected_systems.add(system)
        self.pipe.feed(wire.hsms_data(stream, function, wbit, system, body))

    def shutdown(self, timeout=5.0):
        ok = self.close(timeout)
        for t in vtime.pending():
            owner = getattr(t.function, "__self__", None)
            if owner is self.protocol or owner is getattr(self.handler, "communication_state", None):
                t.cancel()
        return ok
