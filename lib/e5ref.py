"""Independent SEMI E5 (SECS-II) item codec used as reference oracle.

Written from the standard, not from secsgem.  Neutral tree: (fmt, payload)
  ("L", [tree, ...])             list
  ("B", bytes)                   binary
  ("BOOLEAN", [bool, ...])       boolean (decoder returns the raw truth value of each byte)
  ("A", bytes) / ("J", bytes)    text as raw bytes on the wire
  ("U1".."U8","I1".."I8", [int]) integers
  ("F4","F8", [float])           floats (F4 values are binary32 representable)
"""

from __future__ import annotations

import struct

CODES = {
    "L": 0o00, "B": 0o10, "BOOLEAN": 0o11, "A": 0o20, "J": 0o21,
    "I8": 0o30, "I1": 0o31, "I2": 0o32, "I4": 0o34,
    "F8": 0o40, "F4": 0o44,
    "U8": 0o50, "U1": 0o51, "U2": 0o52, "U4": 0o54,
}
NAMES = {v: k for k, v in CODES.items()}
NUM = {  # fmt -> (struct code, size, min, max)
    "I8": ("q", 8, -(2**63), 2**63 - 1), "I1": ("b", 1, -128, 127), "I2": ("h", 2, -(2**15), 2**15 - 1),
    "I4": ("l", 4, -(2**31), 2**31 - 1),
    "U8": ("Q", 8, 0, 2**64 - 1), "U1": ("B", 1, 0, 255), "U2": ("H", 2, 0, 2**16 - 1), "U4": ("L", 4, 0, 2**32 - 1),
    "F8": ("d", 8, None, None), "F4": ("f", 4, None, None),
}
INT_FMTS = ["U1", "U2", "U4", "U8", "I1", "I2", "I4", "I8"]
FLOAT_FMTS = ["F4", "F8"]
NUM_FMTS = INT_FMTS + FLOAT_FMTS
FLT_MAX = struct.unpack(">f", bytes.fromhex("7f7fffff"))[0]
DBL_MAX = struct.unpack(">d", bytes.fromhex("7fefffffffffffff"))[0]


class E5Error(ValueError):
    pass


def header(code: int, length: int, nlen: int | None = None) -> bytes:
    """Format byte + length bytes. nlen=None -> minimal count (the canonical form)."""
    if length < 0 or length > 0xFFFFFF:
        raise E5Error("length out of range")
    need = 1 if length <= 0xFF else 2 if length <= 0xFFFF else 3
    if nlen is None:
        nlen = need
    if nlen < need or nlen > 3:
        raise E5Error("length does not fit")
    return bytes([(code << 2) | nlen]) + length.to_bytes(nlen, "big")


def payload(tree) -> bytes:
    fmt, val = tree
    if fmt == "B":
        return bytes(val)
    if fmt == "BOOLEAN":
        if isinstance(val, (bytes, bytearray)):
            return bytes(val)
        return bytes(1 if v else 0 for v in val)
    if fmt in ("A", "J"):
        return bytes(val)
    code = NUM[fmt][0]
    return b"".join(struct.pack(">" + code, v) for v in val)


def encode(tree, lenbytes=None) -> bytes:
    """Canonical encoding.  `lenbytes`: optional callable(path, need) -> number of length bytes to force."""
    return _encode(tree, lenbytes, ())


def _encode(tree, lenbytes, path) -> bytes:
    fmt, val = tree
    if fmt == "L":
        body = b"".join(_encode(child, lenbytes, path + (i,)) for i, child in enumerate(val))
        n = len(val)
    else:
        body = payload(tree)
        n = len(body)
    nlen = None
    if lenbytes is not None:
        need = 1 if n <= 0xFF else 2 if n <= 0xFFFF else 3
        nlen = lenbytes(path, need)
    return header(CODES[fmt], n, nlen) + body


def decode(data: bytes, pos: int = 0):
    """Strict decoder: returns (tree, next position). Raises E5Error on anything that is not a valid item."""
    if pos >= len(data):
        raise E5Error("no data")
    fb = data[pos]
    code, nlen = fb >> 2, fb & 3
    if nlen == 0:
        raise E5Error("zero length bytes")
    if code not in NAMES:
        raise E5Error("unknown format code %o" % code)
    if pos + 1 + nlen > len(data):
        raise E5Error("truncated length")
    length = int.from_bytes(data[pos + 1:pos + 1 + nlen], "big")
    pos += 1 + nlen
    fmt = NAMES[code]
    if fmt == "L":
        items = []
        for _ in range(length):
            item, pos = decode(data, pos)
            items.append(item)
        return ("L", items), pos
    if pos + length > len(data):
        raise E5Error("truncated payload")
    raw = bytes(data[pos:pos + length])
    pos += length
    if fmt == "B":
        return ("B", raw), pos
    if fmt == "BOOLEAN":
        return ("BOOLEAN", [b != 0 for b in raw]), pos
    if fmt in ("A", "J"):
        return (fmt, raw), pos
    code_s, size, _, _ = NUM[fmt]
    if length % size:
        raise E5Error("payload not a multiple of the element size")
    vals = [struct.unpack(">" + code_s, raw[i:i + size])[0] for i in range(0, length, size)]
    return (fmt, vals), pos


def decode_all(data: bytes):
    tree, pos = decode(data, 0)
    if pos != len(data):
        raise E5Error("trailing bytes")
    return tree


def f32(x: float) -> float:
    """Round a Python float to binary32 (raises OverflowError beyond FLT_MAX rounding range)."""
    return struct.unpack(">f", struct.pack(">f", x))[0]


def tree_equal(a, b) -> bool:
    """Structural equality with floats compared by bit pattern (NaN == NaN, +0 != -0)."""
    if a[0] != b[0]:
        return False
    if a[0] == "L":
        return len(a[1]) == len(b[1]) and all(tree_equal(x, y) for x, y in zip(a[1], b[1]))
    return payload(a) == payload(b)


# JIS X 0201 (8-bit): written out from the standard.  byte -> unicode code point
def jis8_table():
    t = {}
    for b in range(0x80):
        t[b] = b
    t[0x5C] = 0x00A5  # YEN SIGN
    t[0x7E] = 0x203E  # OVERLINE
    for b in range(0xA1, 0xE0):  # halfwidth katakana block U+FF61..U+FF9F
        t[b] = 0xFF61 + (b - 0xA1)
    return t


JIS8 = jis8_table()
JIS8_REV = {v: k for k, v in JIS8.items()}
