"""Seeded, boundary-biased generators of E5 typed trees (see lib/e5ref.py for the tree format)."""

from __future__ import annotations

import struct

from . import e5ref

LEAF_FMTS = ["B", "BOOLEAN", "A", "J"] + e5ref.NUM_FMTS
COUNT_BOUNDARIES = [0, 1, 2, 3, 254, 255, 256, 257]


def int_boundaries(fmt):
    _, size, lo, hi = e5ref.NUM[fmt]
    vals = {lo, lo + 1, hi, hi - 1, 0, 1}
    if lo < 0:
        vals.update({-1, -2})
    for p in range(1, size * 8 + 1):
        for d in (-1, 0, 1):
            for sgn in (1, -1):
                v = sgn * (2**p) + d
                if lo <= v <= hi:
                    vals.add(v)
    return sorted(vals)


_INT_B = {f: int_boundaries(f) for f in e5ref.INT_FMTS}

F4_SPECIAL_BITS = [0x00000000, 0x80000000, 0x00000001, 0x80000001, 0x007FFFFF, 0x00800000, 0x3F800000, 0xBF800000,
                   0x7F7FFFFF, 0xFF7FFFFF, 0x7F7FFFFE, 0x7F7FFFEF, 0x7F7FFFEE, 0x7F7FFF00, 0x3DCCCCCD, 0x4B800000]
F8_SPECIAL_BITS = [0x0, 0x8000000000000000, 0x1, 0x8000000000000001, 0x000FFFFFFFFFFFFF, 0x0010000000000000,
                   0x3FF0000000000000, 0xBFF0000000000000, 0x7FEFFFFFFFFFFFFF, 0xFFEFFFFFFFFFFFFF,
                   0x7FEFFFFFFFFFFFFE, 0x7FEFFFFC57CA82AE, 0x7FEFFFFC57CA82AF, 0x3FB999999999999A, 0x47EFFFFFE0000000,
                   0x47EFFFFFF0000000, 0x47EFFFFFEFFFFFFF, 0x47EFFFF4FA5D5F1D]


def f4_from_bits(bits):
    return struct.unpack(">f", bits.to_bytes(4, "big"))[0]


def f8_from_bits(bits):
    return struct.unpack(">d", bits.to_bytes(8, "big"))[0]


def finite_f4(rng):
    """A finite binary32 value (as Python float) drawn from specials or random bit patterns."""
    r = rng.random()
    if r < 0.35:
        bits = rng.choice(F4_SPECIAL_BITS)
    else:
        bits = rng.getrandbits(32)
        if (bits >> 23) & 0xFF == 0xFF:  # inf/nan -> make finite
            bits &= ~(1 << 23) & 0xFFFFFFFF
    return f4_from_bits(bits)


def finite_f8(rng):
    r = rng.random()
    if r < 0.35:
        bits = rng.choice(F8_SPECIAL_BITS)
    else:
        bits = rng.getrandbits(64)
        if (bits >> 52) & 0x7FF == 0x7FF:
            bits &= ~(1 << 52) & 0xFFFFFFFFFFFFFFFF
    return f8_from_bits(bits)


def number(rng, fmt):
    if fmt == "F4":
        return finite_f4(rng)
    if fmt == "F8":
        return finite_f8(rng)
    _, _, lo, hi = e5ref.NUM[fmt]
    if rng.random() < 0.6:
        return rng.choice(_INT_B[fmt])
    return rng.randint(lo, hi)


def count(rng, big=False):
    r = rng.random()
    if r < 0.45:
        return rng.choice([0, 1, 1, 2, 3])
    if r < 0.9 or not big:
        return rng.randint(0, 12)
    return rng.choice(COUNT_BOUNDARIES)


def text_bytes(rng, n, fmt):
    """Raw wire bytes for A (7-bit ASCII + occasionally latin-1) or J (assigned JIS X 0201 bytes)."""
    if fmt == "A":
        hi = 0x7F if rng.random() < 0.8 else 0xFF
        return bytes(rng.randint(0, hi) for _ in range(n))
    pool = list(range(0x80)) + list(range(0xA1, 0xE0))
    return bytes(rng.choice(pool) for _ in range(n))


def leaf(rng, fmt=None, n=None, big=False):
    fmt = fmt or rng.choice(LEAF_FMTS)
    if n is None:
        n = count(rng, big)
    if fmt == "B":
        return ("B", bytes(rng.getrandbits(8) for _ in range(n)))
    if fmt == "BOOLEAN":
        return ("BOOLEAN", [rng.random() < 0.5 for _ in range(n)])
    if fmt in ("A", "J"):
        return (fmt, text_bytes(rng, n, fmt))
    return (fmt, [number(rng, fmt) for _ in range(n)])


def tree(rng, depth=4, width=5, big=False):
    """Random item tree; lists nest up to `depth`."""
    if depth <= 0 or rng.random() < 0.45:
        return leaf(rng, big=big)
    n = rng.choice([0, 1, 2, 3, width]) if rng.random() < 0.7 else rng.randint(0, width)
    return ("L", [tree(rng, depth - 1, width, big) for _ in range(n)])


def depth_of(t):
    if t[0] != "L":
        return 0
    return 1 + max((depth_of(c) for c in t[1]), default=0)


def describe(t, limit=6):
    """Short human readable form of a tree (for evidence samples)."""
    fmt, val = t
    if fmt == "L":
        inner = ", ".join(describe(c, limit) for c in val[:limit])
        if len(val) > limit:
            inner += f", ...{len(val)} items"
        return f"L[{inner}]"
    if fmt in ("A", "J", "B"):
        v = bytes(val)
        return f"{fmt}:{v[:12].hex()}{'..' if len(v) > 12 else ''}({len(v)})"
    v = list(val)
    return f"{fmt}:{v[:limit]}{'..' if len(v) > limit else ''}({len(v)})"


def partitions(rng, total, kind):
    """Cut positions for delivering `total` bytes in segments. Returns list of segment lengths."""
    if total == 0:
        return []
    if kind == "whole":
        return [total]
    if kind == "bytes":
        return [1] * total
    if kind == "random":
        cuts = sorted({rng.randint(1, total - 1) for _ in range(rng.randint(1, min(8, max(1, total - 1))))}) if total > 1 else []
        segs, last = [], 0
        for c in cuts:
            segs.append(c - last)
            last = c
        segs.append(total - last)
        return segs
    raise ValueError(kind)


def segments_from_cuts(total, cuts):
    segs, last = [], 0
    for c in sorted(set(c for c in cuts if 0 < c < total)):
        segs.append(c - last)
        last = c
    segs.append(total - last)
    return segs


def system_bytes(rng, base, p=0.08):
    """Transaction ids for injected messages: a counter from `base`, interspersed (each once) with the boundary values of the
    32-bit field - 0 in particular is a legal id that "not supplied" tests tend to swallow."""
    special = [0, 1, 0x7FFFFFFF, 0x80000000, 0xFFFFFFFF, 0xFFFFFFFE, 0x100, 0xFFFF, 0x10000]
    rng.shuffle(special)
    n = base
    while True:
        if special and rng.random() < p:
            yield special.pop()
        else:
            n += 1
            yield n & 0xFFFFFFFF
