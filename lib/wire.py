"""Reference HSMS (E37) frame and SECS-I (E4) block codecs, written from the standards (not from secsgem)."""

from __future__ import annotations

import struct

# HSMS SType values
DATA, SELECT_REQ, SELECT_RSP, DESELECT_REQ, DESELECT_RSP, LINKTEST_REQ, LINKTEST_RSP, REJECT_REQ, SEPARATE_REQ = 0, 1, 2, 3, 4, 5, 6, 7, 9
STYPE_NAMES = {0: "Data", 1: "Select.req", 2: "Select.rsp", 3: "Deselect.req", 4: "Deselect.rsp", 5: "Linktest.req",
               6: "Linktest.rsp", 7: "Reject.req", 9: "Separate.req"}


def hsms_frame(session=0xFFFF, byte2=0, byte3=0, ptype=0, stype=0, system=0, body=b"") -> bytes:
    """E37 message: 4-byte length (header+body), 10-byte header, body."""
    header = struct.pack(">HBBBBI", session & 0xFFFF, byte2 & 0xFF, byte3 & 0xFF, ptype & 0xFF, stype & 0xFF, system & 0xFFFFFFFF)
    return struct.pack(">I", 10 + len(body)) + header + body


def hsms_data(stream, function, wbit, system, body=b"", session=0) -> bytes:
    return hsms_frame(session, (0x80 if wbit else 0) | (stream & 0x7F), function, 0, DATA, system, body)


def hsms_control(stype, system, byte2=0, byte3=0, session=0xFFFF) -> bytes:
    return hsms_frame(session, byte2, byte3, 0, stype, system, b"")


class Frame:
    __slots__ = ("session", "byte2", "byte3", "ptype", "stype", "system", "body", "raw_header", "clock")

    def __init__(self, session, byte2, byte3, ptype, stype, system, body, raw_header, clock=None):
        self.session, self.byte2, self.byte3, self.ptype, self.stype = session, byte2, byte3, ptype, stype
        self.system, self.body, self.raw_header, self.clock = system, body, raw_header, clock

    @property
    def wbit(self):
        return bool(self.byte2 & 0x80)

    @property
    def stream(self):
        return self.byte2 & 0x7F

    @property
    def function(self):
        return self.byte3

    def describe(self):
        if self.stype == DATA:
            return f"S{self.stream}F{self.function}{'W' if self.wbit else ''} sys={self.system:#x} body={self.body[:24].hex()}({len(self.body)})"
        return f"{STYPE_NAMES.get(self.stype, self.stype)} sys={self.system:#x} b2={self.byte2} b3={self.byte3}"

    def __repr__(self):
        return f"<{self.describe()}>"


def parse_hsms_stream(data: bytes):
    """Split a byte stream into complete frames; returns (frames, remaining bytes)."""
    frames = []
    pos = 0
    while len(data) - pos >= 4:
        (length,) = struct.unpack_from(">I", data, pos)
        if length < 10 or len(data) - pos - 4 < length:
            break
        hdr = data[pos + 4:pos + 14]
        session, b2, b3, ptype, stype, system = struct.unpack(">HBBBBI", hdr)
        frames.append(Frame(session, b2, b3, ptype, stype, system, bytes(data[pos + 14:pos + 4 + length]), bytes(hdr)))
        pos += 4 + length
    return frames, bytes(data[pos:])


# ---------------------------------------------------------------- SECS-I
ENQ, EOT, ACK, NAK = 0x05, 0x04, 0x06, 0x15


def secs1_header(device_id, rbit, stream, wbit, function, block, ebit, system) -> bytes:
    return struct.pack(">HBBHI", ((0x8000 if rbit else 0) | (device_id & 0x7FFF)), ((0x80 if wbit else 0) | (stream & 0x7F)),
                       function & 0xFF, ((0x8000 if ebit else 0) | (block & 0x7FFF)), system & 0xFFFFFFFF)


def secs1_block(header: bytes, data: bytes) -> bytes:
    """Length byte (header+data), header, data, 16-bit arithmetic checksum over header+data."""
    assert len(header) == 10 and len(data) <= 244
    payload = header + data
    return bytes([len(payload)]) + payload + struct.pack(">H", sum(payload) & 0xFFFF)


def secs1_split(device_id, rbit, stream, wbit, function, system, body: bytes):
    """Reference splitter: list of (header fields dict, data)."""
    chunks = [body[i:i + 244] for i in range(0, len(body), 244)] or [b""]
    out = []
    for i, chunk in enumerate(chunks):
        out.append(({"device_id": device_id, "rbit": rbit, "stream": stream, "wbit": wbit, "function": function,
                     "block": i + 1, "ebit": i == len(chunks) - 1, "system": system}, chunk))
    return out


def secs1_parse_block(raw: bytes):
    """Strict parse of one encoded block -> (fields, data) or None if malformed / checksum wrong."""
    if len(raw) < 13 or raw[0] != len(raw) - 3 or raw[0] < 10:
        return None
    payload = raw[1:-2]
    if struct.unpack(">H", raw[-2:])[0] != (sum(payload) & 0xFFFF):
        return None
    dev, sb, fn, blk, system = struct.unpack(">HBBHI", payload[:10])
    return ({"device_id": dev & 0x7FFF, "rbit": bool(dev & 0x8000), "stream": sb & 0x7F, "wbit": bool(sb & 0x80),
             "function": fn, "block": blk & 0x7FFF, "ebit": bool(blk & 0x8000), "system": system}, payload[10:])
