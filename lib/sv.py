"""Adapters between neutral E5 trees and secsgem's two item APIs (public constructors only)."""

from __future__ import annotations

import struct

from secsgem.secs import variables as V
from secsgem.secs.data_items import DataItemBase
from secsgem.secs.variables.dynamic import ANYVALUE

from . import e5ref

VCLS = {
    "B": V.Binary, "BOOLEAN": V.Boolean, "A": V.String, "J": V.JIS8,
    "U1": V.U1, "U2": V.U2, "U4": V.U4, "U8": V.U8, "I1": V.I1, "I2": V.I2, "I4": V.I4, "I8": V.I8,
    "F4": V.F4, "F8": V.F8,
}


def jis_text(raw: bytes) -> str:
    return "".join(chr(e5ref.JIS8[b]) if b in e5ref.JIS8 else chr(b) for b in raw)


def leaf_input(tree, rng=None, form=None):
    """Python value to hand to the typed variable constructor for a leaf tree, plus the form used."""
    fmt, val = tree
    if fmt == "B":
        forms = ["bytes", "bytearray", "list"]
        if len(val) == 1:
            forms.append("int")
        if all(b < 0x80 for b in val):
            forms.append("str")
        form = form or (rng.choice(forms) if rng else "bytes")
        if form == "bytearray":
            return bytearray(val), form
        if form == "list":
            return list(val), form
        if form == "int":
            return val[0], form
        if form == "str":
            return bytes(val).decode("ascii"), form
        return bytes(val), "bytes"
    if fmt == "BOOLEAN":
        forms = ["list", "tuple", "bytearray", "strings"]
        if len(val) == 1:
            forms += ["scalar", "int", "string"]
        form = form or (rng.choice(forms) if rng else "list")
        if form == "tuple":
            return tuple(val), form
        if form == "bytearray":
            return bytearray(1 if v else 0 for v in val), form
        if form == "strings":
            pick = (lambda v, i: (["TRUE", "yes", "True"] if v else ["FALSE", "no", "False"])[i % 3])
            return [pick(v, i) for i, v in enumerate(val)], form
        if form == "scalar":
            return bool(val[0]), form
        if form == "int":
            return 1 if val[0] else 0, form
        if form == "string":
            return "YES" if val[0] else "No", form
        return list(val), "list"
    if fmt in ("A", "J"):
        forms = ["str", "bytes", "bytearray", "list"]
        form = form or (rng.choice(forms) if rng else "str")
        if form == "bytes":
            return bytes(val), form
        if form == "bytearray":
            return bytearray(val), form
        if form == "list":
            return list(val), form
        return (bytes(val).decode("latin-1") if fmt == "A" else jis_text(val)), "str"
    forms = ["list", "tuple"]
    if len(val) == 1:
        forms.append("scalar")
    if fmt == "U1":
        forms.append("bytearray")
    form = form or (rng.choice(forms) if rng else "list")
    if form == "tuple":
        return tuple(val), form
    if form == "scalar":
        return val[0], form
    if form == "bytearray":
        return bytearray(val), form
    return list(val), "list"


def expected_get(tree):
    """Value `get()` must return for a variables-API object holding `tree` (documented normalisation)."""
    fmt, val = tree
    if fmt == "L":
        return [expected_get(c) for c in val]
    if fmt == "B":
        return val[0] if len(val) == 1 else bytes(val)
    if fmt == "BOOLEAN":
        return bool(val[0]) if len(val) == 1 else [bool(v) for v in val]
    if fmt == "A":
        return bytes(val).decode("latin-1")
    if fmt == "J":
        return jis_text(val)
    return val[0] if len(val) == 1 else list(val)


def same_value(a, b, f4=False) -> bool:
    """Python-level equality (True == 1 as in Python), floats by bit pattern (after binary32 rounding if f4)."""
    if isinstance(a, float) or isinstance(b, float):
        if not isinstance(a, (int, float)) or not isinstance(b, (int, float)):
            return False
        if struct.pack(">d", float(a)) == struct.pack(">d", float(b)):
            return True
        if not f4:
            return False
        try:
            return struct.pack(">f", float(a)) == struct.pack(">f", float(b))
        except OverflowError:
            return False
    if isinstance(a, (list, tuple)) and isinstance(b, (list, tuple)):
        return len(a) == len(b) and all(same_value(x, y, f4) for x, y in zip(a, b))
    if isinstance(a, dict) and isinstance(b, dict):
        return list(a.keys()) == list(b.keys()) and all(same_value(a[k], b[k], f4) for k in a)
    if isinstance(a, (bytes, bytearray)) and isinstance(b, (bytes, bytearray)):
        return bytes(a) == bytes(b)
    if isinstance(a, (bool, int)) and isinstance(b, (bool, int)):
        return int(a) == int(b)
    return type(a) is type(b) and a == b


def to_variable(tree, rng=None):
    """Build a secsgem variable object for a tree through the public constructors.

    Leaves become typed variables, lists become Array(ANYVALUE, [...]).
    """
    fmt, val = tree
    if fmt == "L":
        return V.Array(ANYVALUE, [to_variable(c, rng) for c in val])
    inp, _ = leaf_input(tree, rng)
    return VCLS[fmt](inp)


_ITEM_CACHE: dict = {}


def item_class(fmt, count=-1):
    """A user-defined data item class of fixed type (the public way to name a field of a record)."""
    key = (fmt, count)
    if key not in _ITEM_CACHE:
        name = f"X{fmt}" + (f"N{count}" if count >= 0 else "")
        attrs = {"name": name, "__type__": VCLS[fmt], "__count__": count, "__module__": __name__}
        _ITEM_CACHE[key] = type(DataItemBase)(name, (DataItemBase,), attrs)
    return _ITEM_CACHE[key]
