"""Virtual replacement for threading.Timer: timers fire only when the harness says so.

install() must run before secsgem is imported. Every firing runs in a fresh daemon thread (as a real Timer
would), so a handler that blocks cannot stall the harness and timer-thread vs dispatcher-thread concurrency
is preserved.
"""

from __future__ import annotations

import threading

_real_timer = threading.Timer
_lock = threading.Lock()
_timers: list = []
_started: list = []   # (kind, owner) of every timer ever started: lets a monitor count attempts, not only pending timers
_seq = 0
now = 0.0


class VirtualTimer:
    def __init__(self, interval, function, args=None, kwargs=None):
        global _seq
        self.interval = interval
        self.function = function
        self.args = args if args is not None else []
        self.kwargs = kwargs if kwargs is not None else {}
        self.daemon = True
        self.name = "VirtualTimer"
        self.started = False
        self.cancelled = False
        self.fired = False
        self.thread = None
        with _lock:
            _seq += 1
            self.seq = _seq
            self.due = None

    def start(self):
        with _lock:
            if self.started:
                raise RuntimeError("threads can only be started once")
            self.started = True
            self.due = now + self.interval
            _timers.append(self)
            _started.append((self.kind, getattr(self.function, "__self__", None)))

    def cancel(self):
        with _lock:
            self.cancelled = True
            if self in _timers:
                _timers.remove(self)

    def is_alive(self):
        return self.started and not self.cancelled and not self.fired

    def join(self, timeout=None):
        t = self.thread
        if t is not None:
            t.join(timeout)

    @property
    def kind(self):
        fn = getattr(self.function, "__name__", repr(self.function))
        return fn


def install():
    threading.Timer = VirtualTimer


def uninstall():
    threading.Timer = _real_timer


def pending(kind=None, owner=None):
    with _lock:
        out = [t for t in _timers if not t.cancelled and not t.fired]
    if kind is not None:
        out = [t for t in out if t.kind == kind]
    if owner is not None:
        out = [t for t in out if getattr(t.function, "__self__", None) is owner]
    return sorted(out, key=lambda t: (t.due, t.seq))


def started_count(kind, owner=None):
    """How many timers of this kind (and owner) were ever started, fired or cancelled ones included."""
    with _lock:
        return sum(1 for k, o in _started if k == kind and (owner is None or o is owner))


def fire(timer, wait=False, name=None):
    """Expire one timer now: runs its function in a new thread. Returns the thread (None if not pending)."""
    global now
    with _lock:
        if timer.cancelled or timer.fired or timer not in _timers:
            return None
        _timers.remove(timer)
        timer.fired = True
        now = max(now, timer.due)
    th = threading.Thread(target=timer.function, args=timer.args, kwargs=timer.kwargs, daemon=True,
                          name=name or f"vtimer-{timer.kind}-{timer.seq}")
    timer.thread = th
    th.start()
    if wait:
        th.join(wait if isinstance(wait, (int, float)) and not isinstance(wait, bool) else None)
    return th


def reset():
    global now
    with _lock:
        _timers.clear()
        _started.clear()
        now = 0.0
