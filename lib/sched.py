"""Seeded yield injection at statement boundaries of selected source files (sys.monitoring LINE events).

CPython may switch threads between any two bytecodes; a `sleep(0)` / tiny sleep at a statement start of the
anchor files therefore only produces interleavings the program can really have.  The injector records a
signature of the observed (logical thread, line) sequence so evidence can report distinct interleavings.
"""

from __future__ import annotations

import hashlib
import random
import sys
import threading
import time

TOOL = 4


class YieldInjector:
    def __init__(self, fragments):
        self.fragments = tuple(fragments)
        self._known: dict = {}
        self.active = False
        self.lock = threading.Lock()
        self.local = threading.local()
        self.seed = 0
        self.p = 0.3
        self.participants = None      # None = every thread; else set of idents
        self.order = []
        self.yields = 0
        self.events = 0
        self._hash = hashlib.blake2b(digest_size=8)
        self._installed = False
        self.max_sleep = 0.0002
        self.slow = ()                # thread-name fragments whose yields are long sleeps (bias a race)

    def install(self):
        if self._installed:
            return
        mon = sys.monitoring
        mon.use_tool_id(TOOL, "verif-yield")
        mon.register_callback(TOOL, mon.events.LINE, self._line)
        mon.set_events(TOOL, mon.events.LINE)
        self._installed = True

    def uninstall(self):
        if not self._installed:
            return
        mon = sys.monitoring
        mon.set_events(TOOL, 0)
        mon.register_callback(TOOL, mon.events.LINE, None)
        mon.free_tool_id(TOOL)
        self._installed = False

    def begin(self, seed, p=0.3, participants=None, slow=()):
        with self.lock:
            self.slow = tuple(slow)
            self.seed = seed
            self.p = p
            self.participants = set(participants) if participants is not None else None
            self.order = []
            self.yields = 0
            self.events = 0
            self._hash = hashlib.blake2b(digest_size=8)
            self.local = threading.local()
            self.active = True

    def add_participant(self, ident=None):
        with self.lock:
            if self.participants is not None:
                self.participants.add(ident if ident is not None else threading.get_ident())

    def end(self):
        self.active = False
        with self.lock:
            return self._hash.hexdigest(), self.yields, self.events

    def _line(self, code, lineno):
        ok = self._known.get(code)
        if ok is None:
            fn = code.co_filename
            ok = any(f in fn for f in self.fragments)
            self._known[code] = ok
        if not ok:
            return sys.monitoring.DISABLE
        if not self.active:
            return None
        ident = threading.get_ident()
        parts = self.participants
        if parts is not None and ident not in parts:
            return None
        loc = self.local
        rng = getattr(loc, "rng", None)
        if rng is None:
            with self.lock:
                if ident not in self.order:
                    self.order.append(ident)
                idx = self.order.index(ident)
            rng = loc.rng = random.Random(f"{self.seed}/{idx}")
            loc.idx = idx
            name = threading.current_thread().name
            loc.slow = any(f in name for f in self.slow)
        with self.lock:
            self.events += 1
            self._hash.update(b"%d:%d;" % (loc.idx, lineno))
        r = rng.random()
        if r < self.p:
            with self.lock:
                self.yields += 1
            if loc.slow:
                time.sleep(rng.random() * self.max_sleep * 25)
            elif r < self.p * 0.6:
                time.sleep(0)
            else:
                time.sleep(rng.random() * self.max_sleep)
        return None
