"""A disabled endpoint accepts a connection: host.disable(); equipment.disable(); host.enable(); equipment.enable() over real TCP,
repeated. Before e3cb57d the equipment (passive) sometimes kept listening after disable(), accepted the host while disabled and
never established communication afterwards. usage: <script> [repo] [rounds]; exit 0 = converged every round."""
import sys, os, time, threading, logging
sys.path.insert(0, "/verif"); sys.path.insert(0, sys.argv[1] if len(sys.argv) > 1 else "/repo")
from lib import vtime
vtime.install()
import secsgem.common, secsgem.gem, secsgem.hsms

import collections
RING=collections.deque(maxlen=3000)
class H(logging.Handler):
    def emit(self, r):
        if r.name.startswith("bytestream") or "accept exception" in r.getMessage() or "select exception" in r.getMessage(): return
        RING.append(f"{r.relativeCreated:.0f} {r.threadName[-34:]} {r.name[-28:]} {r.getMessage()[:110].replace(chr(10),' ')}" + (" EXC "+repr(r.exc_info[1])[:80] if r.exc_info else ""))
logging.getLogger().addHandler(H()); logging.getLogger().setLevel(logging.DEBUG)
port = 21000 + os.getpid() % 900
A, P = secsgem.hsms.HsmsConnectMode.ACTIVE, secsgem.hsms.HsmsConnectMode.PASSIVE
common = dict(address="127.0.0.1", port=port, t3=5.0, t5=1, t6=2.0, establish_communication_timeout=10)
host = secsgem.gem.GemHostHandler(secsgem.hsms.HsmsSettings(connect_mode=A, device_type=secsgem.common.DeviceType.HOST, **common))
eq = secsgem.gem.GemEquipmentHandler(secsgem.hsms.HsmsSettings(connect_mode=P, device_type=secsgem.common.DeviceType.EQUIPMENT, **common))
for h in (host, eq): h.protocol._connection.select_timeout = 0.05
def both(): return all(h.communication_state.current.name == "COMMUNICATING" for h in (host, eq))
def converge():
    end = time.monotonic() + 30; fired = 0
    while time.monotonic() < end:
        if both(): return True
        time.sleep(0.25)
        timers = [t for h in (host, eq) for t in vtime.pending(owner=h.communication_state)]
        if timers and fired < 40:
            th = vtime.fire(sorted(timers, key=lambda t: (t.due, t.seq))[0]); fired += 1
            if th: th.join(3)
    return both()
host.enable(); eq.enable()
assert converge()
for i in range(int(sys.argv[2]) if len(sys.argv) > 2 else 30):
    RING.clear(); RING.append(f"=== ROUND {i}")
    host.disable(); eq.disable(); host.enable(); time.sleep(0.05 * (i % 7)); eq.enable()
    if not converge():
        print("round", i, "NOT CONVERGED", host.communication_state.current.name, eq.communication_state.current.name, host.protocol.connection_state.current.name, eq.protocol.connection_state.current.name)
        print("\n".join(list(RING)[:70])); os._exit(1)
print("ok"); os._exit(0)
