import socket, struct, sys, threading, time
sys.path.insert(0, sys.argv[1] if len(sys.argv) > 1 else "/repo")

import secsgem.hsms as H
port = 23999
s = H.HsmsSettings(connect_mode=H.HsmsConnectMode.PASSIVE, address="127.0.0.1", port=port)
p = s.create_protocol()
p.events.disconnected += lambda d: time.sleep(0.3)     # a slow application handler
p.enable()
def frame(stype, system): return struct.pack(">LHBBBBL", 10, 0xFFFF, 0, 0, 0, stype, system)
def connect():
    for _ in range(200):
        try: return socket.create_connection(("127.0.0.1", port), timeout=1)
        except OSError: time.sleep(0.01)
def select(c, system):
    c.sendall(frame(1, system)); c.settimeout(2)
    try: return c.recv(14)[9:10] == b"\x02"
    except OSError: return False
c1 = connect(); assert select(c1, 1)
c1.close()
while p.connection_state.current.name != "NOT_CONNECTED": time.sleep(0.001)
c2 = connect()                     # the peer comes back at once
ok = select(c2, 2)
print("second connection selected:", ok, p.connection_state.current.name)
time.sleep(0.6)
print("state after the old close sequence finished:", p.connection_state.current.name)
t = threading.Thread(target=p.disable, daemon=True); t.start(); t.join(3)
print("disable returned:", not t.is_alive())
c2.settimeout(1.0)
try:
    data = c2.recv(100)
    closed = data == b"" or data[9:10] == b"\x09"
except OSError as e:
    closed = False
print("connection closed by disable():", closed)
import os; os._exit(0 if ok and closed and p.connection_state.current.name == "NOT_CONNECTED" else 1)
