"""disable() of a TCP connection spins forever when the listen / connect thread ends between the liveness test and
the stop flag being set (found by C09 part B under yield injection; fixed in /repo, see known_findings.json).

The schedule is forced with a trace function: the thread that calls disable() is held at the line that sets the stop
flag until the listen thread, which has just accepted a connection, is gone - a pause the OS scheduler may cause too.
usage: tcp_disable_races_thread_end.py [repo]   exit 0 = disable() returned, 1 = it spins forever
"""
import os
import socket
import sys
import threading
import time

sys.path.insert(0, sys.argv[1] if len(sys.argv) > 1 else "/repo")
import secsgem.hsms as H  # noqa: E402

port = 23998
settings = H.HsmsSettings(connect_mode=H.HsmsConnectMode.PASSIVE, address="127.0.0.1", port=port)
conn = settings.create_connection()
conn.select_timeout = 0.05
gate = threading.Event()


def tracer(frame, event, arg):
    if frame.f_code.co_name != "disable" or "tcp_server_connection" not in frame.f_code.co_filename:
        return None

    def line(frame, event, arg):
        if event == "line":
            with open(frame.f_code.co_filename) as fh:
                text = fh.readlines()[frame.f_lineno - 1]
            if "_stop_server_thread = True" in text:
                gate.set()                       # disable() has seen a live listen thread ...
                thread = frame.f_locals["self"]._server_thread
                while thread.is_alive():         # ... and is descheduled until that thread has ended
                    time.sleep(0.001)
        return line
    return line


conn.enable()
time.sleep(0.2)


def disable():
    sys.settrace(tracer)
    conn.disable()


t = threading.Thread(target=disable, daemon=True)
t.start()
gate.wait(5)
peer = socket.create_connection(("127.0.0.1", port), timeout=2)    # the listen thread accepts and ends
t.join(5)
print("disable() returned:", not t.is_alive())
os._exit(0 if not t.is_alive() else 1)
