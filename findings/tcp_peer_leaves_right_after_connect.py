import socket, struct, sys, threading, time, os
sys.path.insert(0, sys.argv[1] if len(sys.argv) > 1 else "/repo")
import logging
import secsgem.hsms as H
port = 23100 + os.getpid() % 500
s = H.HsmsSettings(connect_mode=H.HsmsConnectMode.PASSIVE, address="127.0.0.1", port=port)
p = s.create_protocol(); p._connection.select_timeout = 0.05
p.enable(); time.sleep(0.3)
def frame(stype, system): return struct.pack(">LHBBBBL", 10, 0xFFFF, 0, 0, 0, stype, system)
bad = 0
for i in range(40):
    t0 = time.time()
    while True:
        try:
            c = socket.create_connection(("127.0.0.1", port), timeout=1); c.close()     # connect and leave at once
            break
        except OSError:
            # the endpoint listens again a moment after it reported the end of the previous connection
            if time.time() - t0 > 5:
                print("round", i, "endpoint does not listen"); os._exit(1)
            time.sleep(0.01)
    ok = False
    t0 = time.time()
    while time.time() - t0 < 5 and not ok:
        try:
            c2 = socket.create_connection(("127.0.0.1", port), timeout=1)
        except OSError:
            time.sleep(0.02); continue
        try:
            c2.sendall(frame(1, 100 + i)); c2.settimeout(1.0)
            d = c2.recv(14)
            ok = len(d) == 14 and d[9] == 2
        except OSError:
            ok = False
        if not ok:
            c2.close(); time.sleep(0.05)
    if not ok:
        bad += 1
        print("round", i, "no select within 5 s; state", p.connection_state.current.name, [t.name for t in threading.enumerate() if "secsgem" in t.name])
        break
    c2.close()
    t0 = time.time()
    while p.connection_state.current.name != "NOT_CONNECTED" and time.time() - t0 < 3: time.sleep(0.005)
print("bad", bad); os._exit(1 if bad else 0)
