#!/venv/bin/python
"""Regenerate MANIFEST.json from the check modules that exist (keeps the manifest valid at all times)."""
import importlib
import json
import os
import sys

VERIF = os.path.dirname(os.path.dirname(os.path.abspath(__file__)))
sys.path[:0] = [VERIF, "/repo"]
props = [json.loads(l) for l in open(os.path.join(VERIF, "properties.jsonl"))]
checks, na = [], []
for p in props:
    pid = p["id"]
    path = os.path.join(VERIF, "checks", pid.lower() + ".py")
    if not os.path.exists(path):
        na.append({"property_id": pid, "reason": "check not built yet (runtime monitor designed in DESIGN.md section 3)"})
        continue
    mod = importlib.import_module("checks." + pid.lower())
    if getattr(mod, "NOT_APPLICABLE", None):
        na.append({"property_id": pid, "reason": mod.NOT_APPLICABLE})
        continue
    checks.append({
        "property_id": pid,
        "quick_cmd": f"./check {pid} quick",
        "thorough_cmd": f"./check {pid} thorough",
        "evidence_file": f"/verif/evidence/{pid}.json",
        "replay_cmd_template": f"./check {pid} --replay {{path}}",
        "engine": "runtime-monitor",
        "level_claimed": {"category": mod.LEVEL, "text": mod.LEVEL_TEXT, "design_ref": f"DESIGN.md section 3, {pid}"},
        "level_note": mod.LEVEL_NOTE,
        "technique": mod.TECHNIQUE,
    })
manifest = {
    "version": 1,
    "setup_cmd": "/venv/bin/python tools/setup_check.py",
    "hooks": {
        "guard": "SECSGEM_VERIF",
        "enable": "none needed: secsgem is pure Python and every monitor observes it from outside (public API, "
                  "Connection subclass, sys.monitoring); the guard name is reserved and no hook commit exists",
        "baseline_off_cmd": "cd /repo && /venv/bin/python -m pytest -ra -q -p no:cacheprovider --timeout=900 "
                            "--continue-on-collection-errors",
        "source_commits": [],
        "add_only": True,
    },
    "engines": [
        {"name": "runtime-monitor", "path": "/verif/check", "serves_properties": [c["property_id"] for c in checks],
         "kind_free_text": "runs the real secsgem code from /repo under generated hostile workloads (in-memory "
                           "Connection with arbitrary segmentation/close, virtual timers, sys.monitoring yield "
                           "injection, loopback sockets) while independent reference oracles observe bytes, events, "
                           "states and histories; sharded over subprocess workers"},
    ],
    "checks": checks,
    "not_applicable": na,
    "notes": "Technique family: runtime monitoring. Compiler sanitizers/valgrind do not apply (pure Python, no native "
             "code); their role is taken by interpreter-level monitors (faulthandler, threading.excepthook, stack "
             "sampling deadlock oracle). Exit codes: 0 held on what was observed, 1 VIOLATION, 2 INCONCLUSIVE.",
}
with open(os.path.join(VERIF, "MANIFEST.json"), "w") as fh:
    json.dump(manifest, fh, indent=1)
    fh.write("\n")
try:
    import jsonschema
    jsonschema.validate(manifest, json.load(open("/root/.vp/MANIFEST.schema.json")))
    print("MANIFEST.json valid:", len(checks), "checks,", len(na), "not_applicable")
except FileNotFoundError:
    print("schema not found; wrote manifest")
