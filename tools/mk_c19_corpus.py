#!/venv/bin/python
"""Record how the library reads a fixed set of SFDL definitions that fall under the known finding
'sfdl-named-list-outside-supported-forms' (run once when the finding is recorded; never at check time).

The corpus: the documentation's own examples of named lists plus generated definitions (fixed seed) whose named lists
are outside the two forms the shipped catalogue uses and which the library currently does NOT read as documented."""
import json
import os
import random
import sys

VERIF = os.path.dirname(os.path.dirname(os.path.abspath(__file__)))
sys.path.insert(0, VERIF)
sys.path.insert(0, os.environ.get("VERIF_REPO", "/repo"))

import checks.c19 as c  # noqa: E402
from secsgem.secs.variables import functions as G  # noqa: E402

cat = c._catalogue()
names = sorted(cat)
docs = [
    "< L < DATAID > < L SVIDS < SVID > > >",
    "< L < DATAID > < L SVIDS < SVID > > < L ECIDS < ECID > > >",
    "< L < DATAID > < L REPORTS < L < RPTID > < L VIDS < VID > > > > >",
    "< L < CEID > < L DS < L < DSID > < L DV < L < DVNAME > < DVVAL > > > > > >",
    "< L < MDLN > < L NAMES < L < SVID > < SVNAME > > < L < ECID > < ECNAME > > > >",
    "< L < DATAID > < L PARAMS < L < CPNAME > < CPVAL > > < ALID > > >",
]
entries = []
seen = set()
for text in docs:
    ast = c.parse_shipped(text)
    sig, documented = c.behaviour(G, text, ast, cat)
    if not c.supported_subset(ast) and not documented and text not in seen:
        seen.add(text)
        entries.append({"definition": text, "origin": "docs/firststeps/sfdl.md style", "behaviour": sig})
rng = random.Random(19)
while len(entries) < 60:
    ast = c.gen_def(rng, names, rng.choice([2, 3, 4]), rng.choice([2, 3]))
    if c.supported_subset(ast):
        continue
    text = c.canonical(ast)
    if text in seen or len(text) > 400:
        continue
    sig, documented = c.behaviour(G, text, c.parse_shipped(text), cat)
    if documented:
        continue
    seen.add(text)
    entries.append({"definition": text, "origin": "generated (seed 19)", "behaviour": sig})
out = {"_comment": "Pinned inputs of the known finding C19 sfdl-named-list-outside-supported-forms with the behaviour observed when it was "
                   "recorded (tools/mk_c19_corpus.py). checks/c19.py reports an entry as KNOWN-FINDING only while the library still behaves "
                   "exactly like this; a different reading is a new violation. Never written at check time.",
       "recorded_on": os.popen("git -C /repo rev-parse --short HEAD").read().strip(), "entries": entries}
os.makedirs(os.path.join(VERIF, "known"), exist_ok=True)
with open(os.path.join(VERIF, "known", "c19_named_forms_corpus.json"), "w") as fh:
    json.dump(out, fh, indent=1)
print(len(entries), "entries")
