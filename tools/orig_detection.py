#!/venv/bin/python
"""Re-detection of every repaired defect: run the checks against the tree *before* the `fix:` commits.

usage: tools/orig_detection.py [--tier quick|thorough] [--base <commit>] [ID...]

A scratch worktree of the base commit (default: the parent of the first `fix:` commit, i.e. the pinned tree) is
created under $TMPDIR, every check runs with VERIF_REPO=<worktree> and VERIF_OUT=<scratch>, and the mechanisms it
reports are compared with the `fixed` records of known_findings.json: a fixed record whose mechanism is not seen
on the pre-fix tree means the check would not notice the defect coming back.  Nothing is written into /verif
except the table printed on stdout (DESIGN.md section 8 quotes it); the worktree is removed afterwards.
"""
import json
import os
import re
import shutil
import subprocess
import sys
import tempfile
import time

VERIF = os.path.dirname(os.path.dirname(os.path.abspath(__file__)))


def sh(cmd, **kw):
    return subprocess.run(cmd, capture_output=True, text=True, **kw)


def main():
    args = sys.argv[1:]
    tier = "quick"
    base = None
    if "--tier" in args:
        i = args.index("--tier")
        tier = args[i + 1]
        del args[i:i + 2]
    if "--base" in args:
        i = args.index("--base")
        base = args[i + 1]
        del args[i:i + 2]
    if base is None:
        log = sh(["git", "-C", "/repo", "log", "--format=%h %s", "--reverse"]).stdout.splitlines()
        first_fix = next(line.split()[0] for line in log if line.split(" ", 1)[1].startswith("fix:"))
        base = first_fix + "~1"
    with open(os.path.join(VERIF, "known_findings.json")) as fh:
        findings = json.load(fh)["findings"]
    fixed = [f for f in findings if f["status"] == "fixed"]
    ids = [a.upper() for a in args] or sorted({f["property"] for f in fixed})
    tmp = tempfile.mkdtemp(prefix="verif-orig-")
    wt = os.path.join(tmp, "repo")
    r = sh(["git", "-C", "/repo", "worktree", "add", "--detach", "-q", wt, base])
    if r.returncode:
        print(r.stderr)
        return 2
    rows = []
    try:
        for pid in ids:
            env = dict(os.environ, VERIF_REPO=wt, VERIF_OUT=os.path.join(tmp, "out"), VERIF_SEED=os.environ.get("VERIF_SEED", "0"))
            t0 = time.time()
            r = sh([os.path.join(VERIF, "check"), pid, tier], env=env, cwd=VERIF)
            seen = {}
            for m in re.finditer(r"violation mechanism=(\S+) count=(\d+)", r.stdout):
                seen[m.group(1)] = int(m.group(2))
            for f in [f for f in fixed if f["property"] == pid]:
                mech = f["mechanism"]
                hit = [k for k in seen if k == mech or k.startswith(mech) or mech.startswith(k)]
                rows.append((pid, f["commit"], mech, "re-detected" if hit else "NOT SEEN", sum(seen[k] for k in hit)))
            extra = [k for k in seen if not any(k == f["mechanism"] or k.startswith(f["mechanism"]) or f["mechanism"].startswith(k)
                                                for f in findings if f["property"] == pid)]
            print(f"{pid} rc={r.returncode} {time.time() - t0:.0f}s mechanisms={len(seen)} unlisted={extra[:6]}", flush=True)
    finally:
        sh(["git", "-C", "/repo", "worktree", "remove", "--force", wt])
        shutil.rmtree(tmp, ignore_errors=True)
    print()
    print("| property | repaired by | mechanism | on the pre-fix tree | witnesses |")
    print("|---|---|---|---|---|")
    for row in rows:
        print("| " + " | ".join(str(x) for x in row) + " |")
    missing = [r for r in rows if r[3] != "re-detected"]
    print(f"\n{len(rows) - len(missing)}/{len(rows)} fixed records re-detected at tier {tier} on {base}")
    return 1 if missing else 0


if __name__ == "__main__":
    sys.exit(main())
