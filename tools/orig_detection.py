#!/venv/bin/python
"""Re-detection of every repaired defect: run the checks against the tree *before* the `fix:` commits.

usage: tools/orig_detection.py [--tier quick|thorough] [--base <commit>] [ID...]

For every `fixed` record of known_findings.json a scratch worktree of `<its commit>~1` (the tree right before that
repair, earlier repairs applied - on the pinned tree the defects mask each other) is created under $TMPDIR, the
property's check runs with VERIF_REPO=<worktree> and VERIF_OUT=<scratch>, and the mechanisms it reports are compared
with the record: a fixed record whose mechanism is not seen
on the pre-fix tree means the check would not notice the defect coming back.  Nothing is written into /verif
except the table printed on stdout (DESIGN.md section 8 quotes it); the worktree is removed afterwards.
"""
import json
import os
import re
import shutil
import subprocess
import sys
import tempfile
import time

VERIF = os.path.dirname(os.path.dirname(os.path.abspath(__file__)))


def sh(cmd, **kw):
    return subprocess.run(cmd, capture_output=True, text=True, **kw)


def main():
    args = sys.argv[1:]
    tier = "quick"
    base = None
    if "--tier" in args:
        i = args.index("--tier")
        tier = args[i + 1]
        del args[i:i + 2]
    if "--base" in args:
        i = args.index("--base")
        base = args[i + 1]
        del args[i:i + 2]
    base_given = base
    if base is None:
        log = sh(["git", "-C", "/repo", "log", "--format=%h %s", "--reverse"]).stdout.splitlines()
        first_fix = next(line.split()[0] for line in log if line.split(" ", 1)[1].startswith("fix:"))
        base = first_fix + "~1"
    with open(os.path.join(VERIF, "known_findings.json")) as fh:
        findings = json.load(fh)["findings"]
    fixed = [f for f in findings if f["status"] == "fixed"]
    ids = [a.upper() for a in args] or sorted({f["property"] for f in fixed})
    tmp = tempfile.mkdtemp(prefix="verif-orig-")
    rows = []
    per_fix = "--per-fix" in sys.argv or base_given is None
    try:
        for f in fixed:
            pid = f["property"]
            if pid not in ids:
                continue
            # the tree right before this repair (earlier repairs applied: defects mask each other on the pinned tree)
            rev = (f["commit"] + "~1") if per_fix else base
            wt = os.path.join(tmp, "repo-" + f["commit"] + "-" + pid)
            r = sh(["git", "-C", "/repo", "worktree", "add", "--detach", "-q", wt, rev])
            if r.returncode:
                rows.append((pid, f["commit"], f["mechanism"], "no such commit", 0))
                continue
            try:
                env = dict(os.environ, VERIF_REPO=wt, VERIF_OUT=os.path.join(tmp, "out"), VERIF_SEED=os.environ.get("VERIF_SEED", "0"))
                t0 = time.time()
                r = sh([os.path.join(VERIF, "check"), pid, tier], env=env, cwd=VERIF)
                seen = {}
                for m in re.finditer(r"violation mechanism=(\S+) count=(\d+)", r.stdout):
                    seen[m.group(1)] = int(m.group(2))
                mech = f["mechanism"]
                hit = [k for k in seen if k == mech or k.startswith(mech) or mech.startswith(k)]
                verdict = "re-detected" if hit else ("other violation only" if seen else "NOT SEEN")
                rows.append((pid, f["commit"], mech, verdict, sum(seen[k] for k in hit) if hit else sorted(seen)[:2]))
                print(f"{pid} {f['commit']}~1 rc={r.returncode} {time.time() - t0:.0f}s {verdict} {sorted(seen)[:3]}", flush=True)
            finally:
                sh(["git", "-C", "/repo", "worktree", "remove", "--force", wt])
    finally:
        shutil.rmtree(tmp, ignore_errors=True)
    print()
    print("| property | repaired by | mechanism | on the pre-fix tree | witnesses |")
    print("|---|---|---|---|---|")
    for row in rows:
        print("| " + " | ".join(str(x) for x in row) + " |")
    missing = [r for r in rows if r[3] != "re-detected"]
    print(f"\n{len(rows) - len(missing)}/{len(rows)} fixed records re-detected at tier {tier}, each on the tree right before its repair")
    return 1 if missing else 0


if __name__ == "__main__":
    sys.exit(main())
