#!/venv/bin/python
"""Confirm a seeded change and run the checks against it.

usage: tools/try_seed.py <ID> <dir with patch.diff demo.py notes.md> [--tier quick|thorough] [--checks C05,C09]
Steps (all in a scratch worktree of /repo HEAD under $TMPDIR, removed afterwards):
  1. demo passes on the clean tree (exit 0);  2. patch applies;  3. the repository's own suite passes with the patch;
  4. demo fails with the patch (exit 1);      5. the check(s) of the property run with VERIF_REPO=<worktree>.
Prints one JSON line with the outcome; copies patch/demo/meta into /verif/seeded/<ID>/ when 1-4 hold.
"""
import json
import os
import shutil
import subprocess
import sys
import tempfile
import time

VERIF = os.path.dirname(os.path.dirname(os.path.abspath(__file__)))


def sh(cmd, **kw):
    return subprocess.run(cmd, capture_output=True, text=True, **kw)


def main():
    pid, src = sys.argv[1].upper(), os.path.abspath(sys.argv[2])
    tier = "quick"
    checks = [pid]
    if "--tier" in sys.argv:
        tier = sys.argv[sys.argv.index("--tier") + 1]
    if "--checks" in sys.argv:
        checks = sys.argv[sys.argv.index("--checks") + 1].split(",")
    tmp = tempfile.mkdtemp(prefix="verif-seed-")
    wt = os.path.join(tmp, "repo")
    out = {"property": pid, "tier": tier}
    # a change whose effect a later repair of /repo made unobservable is kept with the tree it was written for ("base" in its meta)
    base = "HEAD"
    if "--base" in sys.argv:
        base = sys.argv[sys.argv.index("--base") + 1]
    sh(["git", "-C", "/repo", "worktree", "add", "--detach", "-q", wt, base])
    env = dict(os.environ, PYTHONPATH=wt, PYTHONDONTWRITEBYTECODE="1")
    try:
        demo = os.path.join(src, "demo.py")
        r = sh(["/venv/bin/python", demo], env=env, cwd=wt, timeout=180)
        out["demo_clean_rc"] = r.returncode
        r = sh(["git", "-C", wt, "apply", os.path.join(src, "patch.diff")])
        out["patch_applies"] = r.returncode == 0
        if not out["patch_applies"]:
            out["apply_error"] = r.stderr[-300:]
            print(json.dumps(out))
            return 2
        t0 = time.time()
        r = sh(["/venv/bin/python", "-m", "pytest", "-q", "-p", "no:cacheprovider", "--timeout=120", "--no-cov", "-x"], env=env, cwd=wt, timeout=1500)
        out["suite"] = r.stdout.strip().splitlines()[-1] if r.stdout.strip() else r.stderr[-200:]
        out["suite_passes"] = r.returncode == 0
        r = sh(["/venv/bin/python", demo], env=env, cwd=wt, timeout=180)
        out["demo_patched_rc"] = r.returncode
        out["demo_output"] = (r.stdout + r.stderr)[-400:]
        confirmed = out["demo_clean_rc"] == 0 and out["suite_passes"] and out["demo_patched_rc"] not in (0,)
        out["confirmed"] = confirmed
        results = {}
        for c in checks:
            cenv = dict(os.environ, VERIF_REPO=wt, VERIF_OUT=os.path.join(tmp, "out"), VERIF_SEED=os.environ.get("VERIF_SEED", "0"))
            t0 = time.time()
            r = sh([os.path.join(VERIF, "check"), c, tier], env=cenv, cwd=VERIF, timeout=7200)
            mech = [l.strip()[:200] for l in r.stdout.splitlines() if "violation mechanism=" in l][:3]
            results[c] = {"rc": r.returncode, "verdict": {0: "MISSED", 1: "caught", 2: "inconclusive"}.get(r.returncode, "?"),
                          "seconds": round(time.time() - t0, 1), "mechanisms": mech}
        out["checks"] = results
        if confirmed:
            dst = os.path.join(VERIF, "seeded", pid + (("-" + sys.argv[sys.argv.index("--name") + 1]) if "--name" in sys.argv else ""))
            os.makedirs(dst, exist_ok=True)
            for f in ("patch.diff", "demo.py", "notes.md"):
                if os.path.exists(os.path.join(src, f)) and os.path.realpath(os.path.join(src, f)) != os.path.realpath(os.path.join(dst, f)):
                    shutil.copy(os.path.join(src, f), os.path.join(dst, f))
            out["stored"] = dst
        print(json.dumps(out, indent=1))
    finally:
        sh(["git", "-C", "/repo", "worktree", "remove", "--force", wt])
        shutil.rmtree(tmp, ignore_errors=True)


if __name__ == "__main__":
    sys.exit(main())
