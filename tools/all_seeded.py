#!/venv/bin/python
"""Regression over every kept seeded change: tools/try_seed.py for each /verif/seeded/<dir> against the current /repo HEAD.
Prints one line per change (confirmed? patch still applies? verdict of the property's quick check) and a summary."""
import json
import os
import subprocess
import sys

VERIF = os.path.dirname(os.path.dirname(os.path.abspath(__file__)))
root = os.path.join(VERIF, "seeded")
want = [a.upper() for a in sys.argv[1:]]
bad = []
n = 0
for d in sorted(os.listdir(root)):
    pid = d[:3]
    if want and pid not in want and d.upper() not in want:
        continue
    src = os.path.join(root, d)
    if not os.path.exists(os.path.join(src, "patch.diff")):
        continue
    args = [os.path.join(VERIF, "tools", "try_seed.py"), pid, src]
    if "-" in d:
        args += ["--name", d.split("-", 1)[1]]
    try:
        with open(os.path.join(src, "meta.json")) as fh:
            base = json.load(fh).get("base")
    except (OSError, ValueError):
        base = None
    if base:
        args += ["--base", base]
    r = subprocess.run(args, capture_output=True, text=True)
    try:
        out = json.loads(r.stdout[r.stdout.index("{"):])
    except ValueError:
        print(f"{d}: try_seed failed {r.stdout[-200:]} {r.stderr[-200:]}", flush=True)
        bad.append(d)
        continue
    n += 1
    chk = out.get("checks", {}).get(pid, {})
    line = f"{d}: applies={out.get('patch_applies')} confirmed={out.get('confirmed')} check={chk.get('verdict')} {chk.get('seconds')}s"
    print(line, flush=True)
    if not out.get("patch_applies") or chk.get("verdict") != "caught":
        bad.append(d)
print(f"{n - len(bad)}/{n} seeded changes caught by the quick tier on the current tree; not caught / not applicable: {bad}")
sys.exit(1 if bad else 0)
