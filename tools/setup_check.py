#!/venv/bin/python
"""setup_cmd: nothing to build (pure Python, no third-party dependency); verify the interpreter and imports."""
import os
import sys

sys.path[:0] = ["/repo", os.path.dirname(os.path.dirname(os.path.abspath(__file__)))]
import secsgem  # noqa: E402
import yaml  # noqa: E402,F401

assert sys.version_info >= (3, 12), "sys.monitoring needs Python 3.12"
assert os.path.realpath(secsgem.__file__).startswith("/repo/"), secsgem.__file__
for d in ("evidence", "replays"):
    os.makedirs(os.path.join(os.path.dirname(os.path.dirname(os.path.abspath(__file__))), d), exist_ok=True)
print("setup ok: python", sys.version.split()[0], "secsgem from", os.path.dirname(secsgem.__file__))
