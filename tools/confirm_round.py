#!/venv/bin/python
"""Confirm the seeded changes of a sub-agent round and run the property's check against each.

usage: tools/confirm_round.py <round dir, e.g. /tmp/seed2/out> <round tag, e.g. 2> [ID ...]
For every <round dir>/<ID>/<k>/ (k = a, b, ...) with patch.diff + demo.py: tools/try_seed.py <ID> <dir> --name <tag><k>
(scratch worktree of /repo HEAD; demo passes clean, patch applies, suite passes, demo fails, check runs with
VERIF_REPO=<worktree>), then /verif/seeded/<ID>-<tag><k>/meta.json is written from the outcome. Prints one line each.
"""
import json
import os
import subprocess
import sys

VERIF = os.path.dirname(os.path.dirname(os.path.abspath(__file__)))


def main():
    root, tag = sys.argv[1], sys.argv[2]
    want = [a.upper() for a in sys.argv[3:] if not a.startswith("--")]
    head = subprocess.run(["git", "-C", "/repo", "rev-parse", "--short", "HEAD"], capture_output=True, text=True).stdout.strip()
    for pid in sorted(os.listdir(root)):
        if want and pid not in want:
            continue
        for k in sorted(os.listdir(os.path.join(root, pid))):
            src = os.path.join(root, pid, k)
            if not (os.path.isdir(src) and os.path.exists(os.path.join(src, "patch.diff")) and os.path.exists(os.path.join(src, "demo.py"))):
                continue
            dst = os.path.join(VERIF, "seeded", f"{pid}-{tag}{k}")
            if os.path.exists(os.path.join(dst, "meta.json")) and "--force" not in sys.argv:
                continue
            r = subprocess.run([os.path.join(VERIF, "tools", "try_seed.py"), pid, src, "--name", f"{tag}{k}"], capture_output=True, text=True)
            try:
                out = json.loads(r.stdout[r.stdout.index("{"):])
            except ValueError:
                print(f"{pid}-{tag}{k}: try_seed failed: {r.stdout[-300:]} {r.stderr[-300:]}")
                continue
            chk = out.get("checks", {}).get(pid, {})
            line = f"{pid}-{tag}{k}: confirmed={out.get('confirmed')} suite={out.get('suite')} demo={out.get('demo_clean_rc')}/{out.get('demo_patched_rc')} " \
                   f"check={chk.get('verdict')} {chk.get('seconds')}s {(chk.get('mechanisms') or [''])[0][:140]}"
            print(line, flush=True)
            if not out.get("confirmed"):
                continue
            notes = ""
            if os.path.exists(os.path.join(src, "notes.md")):
                with open(os.path.join(src, "notes.md")) as fh:
                    notes = " ".join(fh.read().split())[:400]
            meta = {
                "property": pid,
                "origin": f"fresh sub-agent (round {tag}) given only the property text and a scratch worktree",
                "change": notes,
                "confirmed": {"applies_to": f"/repo HEAD at the time ({head})", "existing_suite": out.get("suite"),
                              "demo": f"exit {out.get('demo_patched_rc')} with the change, exit {out.get('demo_clean_rc')} without (tools/try_seed.py)"},
                "detected_by": f"{pid} quick: {(chk.get('mechanisms') or ['-'])[0][:200]}" if chk.get("verdict") == "caught" else None,
                "first_run_verdict": chk.get("verdict"),
                "how_run": f"tools/try_seed.py {pid} seeded/{pid}-{tag}{k} (scratch worktree, VERIF_REPO=<worktree> ./check {pid} quick)",
            }
            with open(os.path.join(dst, "meta.json"), "w") as fh:
                json.dump(meta, fh, indent=1)


if __name__ == "__main__":
    main()
